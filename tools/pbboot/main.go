// bootstrap regenerates the Go code for api/proto/**/*.proto without protoc.
package main

import (
	"bytes"
	"flag"
	"fmt"
	"os"
	"os/exec"
	"path/filepath"
	"sort"
	"strings"

	"google.golang.org/protobuf/cmd/protoc-gen-go/internal_gengo"
	"google.golang.org/protobuf/compiler/protogen"
	"google.golang.org/protobuf/proto"
	"google.golang.org/protobuf/reflect/protodesc"
	"google.golang.org/protobuf/types/descriptorpb"
	"google.golang.org/protobuf/types/pluginpb"
)

func die(format string, args ...any) {
	fmt.Fprintf(os.Stderr, "bootstrap: "+format+"\n", args...)
	os.Exit(2)
}

func main() {
	root := flag.String("proto-root", "/repo/api/proto", "directory that import paths are relative to")
	out := flag.String("out", "", "output directory (mirrors proto-root)")
	gw := flag.String("gateway-plugin", "", "path to protoc-gen-grpc-gateway binary (optional)")
	flag.Parse()
	if *out == "" {
		die("-out is required")
	}
	var files []string
	err := filepath.Walk(*root, func(p string, info os.FileInfo, err error) error {
		if err != nil {
			return err
		}
		if !info.IsDir() && strings.HasSuffix(p, ".proto") {
			rel, _ := filepath.Rel(*root, p)
			files = append(files, filepath.ToSlash(rel))
		}
		return nil
	})
	if err != nil {
		die("walk: %v", err)
	}
	sort.Strings(files)

	lk := &linker{parsed: map[string]*descriptorpb.FileDescriptorProto{}, syms: map[string]symKind{}, extDeps: map[string]*descriptorpb.FileDescriptorProto{}}
	var allOpts []rawOption
	for _, f := range files {
		src, err := os.ReadFile(filepath.Join(*root, f))
		if err != nil {
			die("%v", err)
		}
		fd, opts, err := parseFile(f, string(src))
		if err != nil {
			die("parse: %v", err)
		}
		lk.parsed[f] = fd
		lk.addFileSyms(fd)
		allOpts = append(allOpts, opts...)
	}
	for _, f := range files {
		for _, dep := range lk.parsed[f].Dependency {
			if _, ok := lk.parsed[dep]; ok {
				continue
			}
			if err := lk.loadExternal(dep); err != nil {
				die("%s: %v", f, err)
			}
		}
	}
	for _, f := range files {
		if err := lk.linkFile(lk.parsed[f]); err != nil {
			die("link %s: %v", f, err)
		}
	}
	for i := range allOpts {
		if err := applyOption(&allOpts[i]); err != nil {
			die("option: %v", err)
		}
	}

	// topological order, deps first
	var ordered []*descriptorpb.FileDescriptorProto
	seen := map[string]bool{}
	var visit func(path string)
	visit = func(path string) {
		if seen[path] {
			return
		}
		seen[path] = true
		fd := lk.parsed[path]
		if fd == nil {
			fd = lk.extDeps[path]
		}
		if fd == nil {
			die("missing file %s", path)
		}
		for _, d := range fd.Dependency {
			visit(d)
		}
		ordered = append(ordered, fd)
	}
	for _, f := range files {
		visit(f)
	}
	// independent validation of the linked descriptors
	if _, err := protodesc.NewFiles(&descriptorpb.FileDescriptorSet{File: ordered}); err != nil {
		die("descriptor validation: %v", err)
	}

	req := &pluginpb.CodeGeneratorRequest{
		FileToGenerate: files,
		Parameter:      proto.String("paths=source_relative"),
		ProtoFile:      ordered,
	}
	gen, err := protogen.Options{}.New(req)
	if err != nil {
		die("protogen: %v", err)
	}
	gen.SupportedFeatures = uint64(pluginpb.CodeGeneratorResponse_FEATURE_PROTO3_OPTIONAL)
	for _, f := range gen.Files {
		if !f.Generate {
			continue
		}
		internal_gengo.GenerateFile(gen, f)
		genGRPC(gen, f)
		if err := genValidate(gen, f); err != nil {
			die("validate: %v", err)
		}
	}
	resp := gen.Response()
	if resp.Error != nil {
		die("generator: %s", resp.GetError())
	}
	write := func(r *pluginpb.CodeGeneratorResponse) int {
		for _, rf := range r.File {
			p := filepath.Join(*out, rf.GetName())
			if err := os.MkdirAll(filepath.Dir(p), 0o755); err != nil {
				die("%v", err)
			}
			if err := os.WriteFile(p, []byte(rf.GetContent()), 0o644); err != nil {
				die("%v", err)
			}
		}
		return len(r.File)
	}
	n := write(resp)
	if *gw != "" {
		in, err := proto.Marshal(req)
		if err != nil {
			die("%v", err)
		}
		cmd := exec.Command(*gw)
		cmd.Stdin = bytes.NewReader(in)
		var stdout bytes.Buffer
		cmd.Stdout = &stdout
		cmd.Stderr = os.Stderr
		if err := cmd.Run(); err != nil {
			die("gateway plugin: %v", err)
		}
		var gr pluginpb.CodeGeneratorResponse
		if err := proto.Unmarshal(stdout.Bytes(), &gr); err != nil {
			die("gateway plugin output: %v", err)
		}
		if gr.Error != nil {
			die("gateway plugin: %s", gr.GetError())
		}
		n += write(&gr)
	}
	fmt.Printf("bootstrap: %d proto files -> %d go files in %s\n", len(files), n, *out)
}
