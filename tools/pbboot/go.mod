module verif/pbboot

go 1.25.13

require (
	github.com/apache/skywalking-banyandb v0.0.0
	github.com/envoyproxy/protoc-gen-validate v1.3.3
	google.golang.org/genproto/googleapis/api v0.0.0-20260810153831-ec0a7760b754
	google.golang.org/protobuf v1.36.12
)

require github.com/grpc-ecosystem/grpc-gateway/v2 v2.30.0

require go.uber.org/mock v0.6.0 // indirect

replace github.com/apache/skywalking-banyandb => /repo
