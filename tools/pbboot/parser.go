package main

import (
	"fmt"
	"strconv"
	"strings"
	"unicode"

	"google.golang.org/protobuf/proto"
	"google.golang.org/protobuf/types/descriptorpb"
)

// ---------- lexer ----------

type tokKind int

const (
	tEOF tokKind = iota
	tIdent
	tInt
	tFloat
	tString
	tSym
)

type token struct {
	kind tokKind
	text string // for strings: the decoded value
	pos  int    // byte offset of token start
	end  int    // byte offset just after token
	line int
}

type lexer struct {
	src  string
	pos  int
	line int
	file string
}

func (l *lexer) errf(format string, args ...any) error {
	return fmt.Errorf("%s:%d: %s", l.file, l.line, fmt.Sprintf(format, args...))
}

func (l *lexer) skipSpace() error {
	for l.pos < len(l.src) {
		c := l.src[l.pos]
		switch {
		case c == '\n':
			l.line++
			l.pos++
		case c == ' ' || c == '\t' || c == '\r':
			l.pos++
		case c == '/' && l.pos+1 < len(l.src) && l.src[l.pos+1] == '/':
			for l.pos < len(l.src) && l.src[l.pos] != '\n' {
				l.pos++
			}
		case c == '/' && l.pos+1 < len(l.src) && l.src[l.pos+1] == '*':
			end := strings.Index(l.src[l.pos+2:], "*/")
			if end < 0 {
				return l.errf("unterminated block comment")
			}
			l.line += strings.Count(l.src[l.pos:l.pos+2+end+2], "\n")
			l.pos += 2 + end + 2
		default:
			return nil
		}
	}
	return nil
}

func isIdentStart(c byte) bool { return c == '_' || unicode.IsLetter(rune(c)) }
func isIdentPart(c byte) bool  { return c == '_' || unicode.IsLetter(rune(c)) || unicode.IsDigit(rune(c)) }

func (l *lexer) next() (token, error) {
	if err := l.skipSpace(); err != nil {
		return token{}, err
	}
	if l.pos >= len(l.src) {
		return token{kind: tEOF, pos: l.pos, end: l.pos, line: l.line}, nil
	}
	start := l.pos
	c := l.src[l.pos]
	switch {
	case isIdentStart(c):
		for l.pos < len(l.src) && isIdentPart(l.src[l.pos]) {
			l.pos++
		}
		return token{kind: tIdent, text: l.src[start:l.pos], pos: start, end: l.pos, line: l.line}, nil
	case unicode.IsDigit(rune(c)) || (c == '.' && l.pos+1 < len(l.src) && unicode.IsDigit(rune(l.src[l.pos+1]))):
		isFloat := false
		if c == '0' && l.pos+1 < len(l.src) && (l.src[l.pos+1] == 'x' || l.src[l.pos+1] == 'X') {
			l.pos += 2
			for l.pos < len(l.src) && strings.ContainsRune("0123456789abcdefABCDEF", rune(l.src[l.pos])) {
				l.pos++
			}
		} else {
			for l.pos < len(l.src) {
				ch := l.src[l.pos]
				if unicode.IsDigit(rune(ch)) {
					l.pos++
				} else if ch == '.' {
					isFloat = true
					l.pos++
				} else if ch == 'e' || ch == 'E' {
					isFloat = true
					l.pos++
					if l.pos < len(l.src) && (l.src[l.pos] == '+' || l.src[l.pos] == '-') {
						l.pos++
					}
				} else {
					break
				}
			}
		}
		k := tInt
		if isFloat {
			k = tFloat
		}
		return token{kind: k, text: l.src[start:l.pos], pos: start, end: l.pos, line: l.line}, nil
	case c == '"' || c == '\'':
		quote := c
		l.pos++
		var sb strings.Builder
		for {
			if l.pos >= len(l.src) {
				return token{}, l.errf("unterminated string")
			}
			ch := l.src[l.pos]
			if ch == quote {
				l.pos++
				break
			}
			if ch == '\n' {
				return token{}, l.errf("newline in string")
			}
			if ch == '\\' {
				l.pos++
				if l.pos >= len(l.src) {
					return token{}, l.errf("bad escape")
				}
				e := l.src[l.pos]
				l.pos++
				switch e {
				case 'n':
					sb.WriteByte('\n')
				case 't':
					sb.WriteByte('\t')
				case 'r':
					sb.WriteByte('\r')
				case 'a':
					sb.WriteByte(7)
				case 'b':
					sb.WriteByte(8)
				case 'f':
					sb.WriteByte(12)
				case 'v':
					sb.WriteByte(11)
				case '\\', '\'', '"', '?':
					sb.WriteByte(e)
				case 'x', 'X':
					st := l.pos
					for l.pos < len(l.src) && l.pos-st < 2 && strings.ContainsRune("0123456789abcdefABCDEF", rune(l.src[l.pos])) {
						l.pos++
					}
					v, err := strconv.ParseUint(l.src[st:l.pos], 16, 8)
					if err != nil {
						return token{}, l.errf("bad hex escape")
					}
					sb.WriteByte(byte(v))
				case '0', '1', '2', '3', '4', '5', '6', '7':
					st := l.pos - 1
					for l.pos < len(l.src) && l.pos-st < 3 && l.src[l.pos] >= '0' && l.src[l.pos] <= '7' {
						l.pos++
					}
					v, err := strconv.ParseUint(l.src[st:l.pos], 8, 16)
					if err != nil {
						return token{}, l.errf("bad octal escape")
					}
					sb.WriteByte(byte(v))
				default:
					return token{}, l.errf("unsupported escape \\%c", e)
				}
				continue
			}
			sb.WriteByte(ch)
			l.pos++
		}
		return token{kind: tString, text: sb.String(), pos: start, end: l.pos, line: l.line}, nil
	default:
		l.pos++
		return token{kind: tSym, text: string(c), pos: start, end: l.pos, line: l.line}, nil
	}
}

// ---------- parser ----------

// rawOption is an option that is interpreted after linking.
type rawOption struct {
	target proto.Message // *descriptorpb.XxxOptions to set into
	name   []optName
	// exactly one of these
	scalar    *token
	neg       bool
	aggregate string // text between braces
	isAgg     bool
	where     string
}

type optName struct {
	name  string
	isExt bool
}

type parser struct {
	lx   *lexer
	tok  token
	opts []rawOption
	fd   *descriptorpb.FileDescriptorProto
}

func (p *parser) advance() error {
	t, err := p.lx.next()
	if err != nil {
		return err
	}
	p.tok = t
	return nil
}

func (p *parser) errf(format string, args ...any) error {
	return fmt.Errorf("%s:%d: %s (at %q)", p.lx.file, p.tok.line, fmt.Sprintf(format, args...), p.tok.text)
}

func (p *parser) isSym(s string) bool   { return p.tok.kind == tSym && p.tok.text == s }
func (p *parser) isIdent(s string) bool { return p.tok.kind == tIdent && p.tok.text == s }

func (p *parser) expectSym(s string) error {
	if !p.isSym(s) {
		return p.errf("expected %q", s)
	}
	return p.advance()
}

func (p *parser) ident() (string, error) {
	if p.tok.kind != tIdent {
		return "", p.errf("expected identifier")
	}
	s := p.tok.text
	return s, p.advance()
}

// fullIdent parses a possibly dotted name, with optional leading dot.
func (p *parser) fullIdent() (string, error) {
	var sb strings.Builder
	if p.isSym(".") {
		sb.WriteByte('.')
		if err := p.advance(); err != nil {
			return "", err
		}
	}
	for {
		id, err := p.ident()
		if err != nil {
			return "", err
		}
		sb.WriteString(id)
		if !p.isSym(".") {
			break
		}
		sb.WriteByte('.')
		if err := p.advance(); err != nil {
			return "", err
		}
	}
	return sb.String(), nil
}

func (p *parser) stringLit() (string, error) {
	if p.tok.kind != tString {
		return "", p.errf("expected string")
	}
	// adjacent string literals concatenate
	var sb strings.Builder
	for p.tok.kind == tString {
		sb.WriteString(p.tok.text)
		if err := p.advance(); err != nil {
			return "", err
		}
	}
	return sb.String(), nil
}

func (p *parser) intLit() (int64, error) {
	neg := false
	if p.isSym("-") {
		neg = true
		if err := p.advance(); err != nil {
			return 0, err
		}
	}
	if p.tok.kind != tInt {
		return 0, p.errf("expected integer")
	}
	v, err := strconv.ParseInt(p.tok.text, 0, 64)
	if err != nil {
		return 0, p.errf("bad integer: %v", err)
	}
	if neg {
		v = -v
	}
	return v, p.advance()
}

func parseFile(name, src string) (*descriptorpb.FileDescriptorProto, []rawOption, error) {
	p := &parser{lx: &lexer{src: src, line: 1, file: name}}
	p.fd = &descriptorpb.FileDescriptorProto{Name: proto.String(name)}
	if err := p.advance(); err != nil {
		return nil, nil, err
	}
	for p.tok.kind != tEOF {
		if err := p.topLevel(); err != nil {
			return nil, nil, err
		}
	}
	return p.fd, p.opts, nil
}

func (p *parser) topLevel() error {
	switch {
	case p.isSym(";"):
		return p.advance()
	case p.isIdent("syntax"):
		if err := p.advance(); err != nil {
			return err
		}
		if err := p.expectSym("="); err != nil {
			return err
		}
		s, err := p.stringLit()
		if err != nil {
			return err
		}
		if s != "proto3" {
			return p.errf("only proto3 supported, got %q", s)
		}
		p.fd.Syntax = proto.String(s)
		return p.expectSym(";")
	case p.isIdent("package"):
		if err := p.advance(); err != nil {
			return err
		}
		n, err := p.fullIdent()
		if err != nil {
			return err
		}
		p.fd.Package = proto.String(n)
		return p.expectSym(";")
	case p.isIdent("import"):
		if err := p.advance(); err != nil {
			return err
		}
		if p.isIdent("public") {
			p.fd.PublicDependency = append(p.fd.PublicDependency, int32(len(p.fd.Dependency)))
			if err := p.advance(); err != nil {
				return err
			}
		} else if p.isIdent("weak") {
			return p.errf("weak imports unsupported")
		}
		s, err := p.stringLit()
		if err != nil {
			return err
		}
		p.fd.Dependency = append(p.fd.Dependency, s)
		return p.expectSym(";")
	case p.isIdent("option"):
		if p.fd.Options == nil {
			p.fd.Options = &descriptorpb.FileOptions{}
		}
		return p.optionStmt(p.fd.Options)
	case p.isIdent("message"):
		m, err := p.message()
		if err != nil {
			return err
		}
		p.fd.MessageType = append(p.fd.MessageType, m)
		return nil
	case p.isIdent("enum"):
		e, err := p.enum()
		if err != nil {
			return err
		}
		p.fd.EnumType = append(p.fd.EnumType, e)
		return nil
	case p.isIdent("service"):
		s, err := p.service()
		if err != nil {
			return err
		}
		p.fd.Service = append(p.fd.Service, s)
		return nil
	}
	return p.errf("unexpected top-level token")
}

// optionStmt parses `option name = value;`.
func (p *parser) optionStmt(target proto.Message) error {
	if err := p.advance(); err != nil { // consume "option"
		return err
	}
	if err := p.optionBody(target); err != nil {
		return err
	}
	return p.expectSym(";")
}

// optionBody parses `name = value`.
func (p *parser) optionBody(target proto.Message) error {
	ro := rawOption{target: target, where: fmt.Sprintf("%s:%d", p.lx.file, p.tok.line)}
	for {
		if p.isSym("(") {
			if err := p.advance(); err != nil {
				return err
			}
			n, err := p.fullIdent()
			if err != nil {
				return err
			}
			if err := p.expectSym(")"); err != nil {
				return err
			}
			ro.name = append(ro.name, optName{name: strings.TrimPrefix(n, "."), isExt: true})
		} else {
			n, err := p.ident()
			if err != nil {
				return err
			}
			ro.name = append(ro.name, optName{name: n})
		}
		if !p.isSym(".") {
			break
		}
		if err := p.advance(); err != nil {
			return err
		}
	}
	if err := p.expectSym("="); err != nil {
		return err
	}
	if p.isSym("{") {
		// capture raw text up to matching brace
		depth := 0
		start := p.tok.end
		for {
			if p.tok.kind == tEOF {
				return p.errf("unterminated aggregate")
			}
			if p.isSym("{") {
				depth++
			} else if p.isSym("}") {
				depth--
				if depth == 0 {
					ro.aggregate = p.lx.src[start:p.tok.pos]
					ro.isAgg = true
					if err := p.advance(); err != nil {
						return err
					}
					break
				}
			}
			if err := p.advance(); err != nil {
				return err
			}
		}
	} else {
		if p.isSym("-") {
			ro.neg = true
			if err := p.advance(); err != nil {
				return err
			}
		} else if p.isSym("+") {
			if err := p.advance(); err != nil {
				return err
			}
		}
		t := p.tok
		if t.kind == tString {
			s, err := p.stringLit()
			if err != nil {
				return err
			}
			t.text = s
		} else if t.kind == tIdent || t.kind == tInt || t.kind == tFloat {
			if err := p.advance(); err != nil {
				return err
			}
		} else {
			return p.errf("bad option value")
		}
		ro.scalar = &t
	}
	p.opts = append(p.opts, ro)
	return nil
}

// bracketOptions parses `[a = b, (c).d = e]` if present.
func (p *parser) bracketOptions(mk func() proto.Message, jsonName **string) error {
	if !p.isSym("[") {
		return nil
	}
	if err := p.advance(); err != nil {
		return err
	}
	for {
		if jsonName != nil && p.isIdent("json_name") {
			if err := p.advance(); err != nil {
				return err
			}
			if err := p.expectSym("="); err != nil {
				return err
			}
			s, err := p.stringLit()
			if err != nil {
				return err
			}
			*jsonName = proto.String(s)
		} else if err := p.optionBody(mk()); err != nil {
			return err
		}
		if p.isSym(",") {
			if err := p.advance(); err != nil {
				return err
			}
			continue
		}
		break
	}
	return p.expectSym("]")
}

var scalarTypes = map[string]descriptorpb.FieldDescriptorProto_Type{
	"double":   descriptorpb.FieldDescriptorProto_TYPE_DOUBLE,
	"float":    descriptorpb.FieldDescriptorProto_TYPE_FLOAT,
	"int64":    descriptorpb.FieldDescriptorProto_TYPE_INT64,
	"uint64":   descriptorpb.FieldDescriptorProto_TYPE_UINT64,
	"int32":    descriptorpb.FieldDescriptorProto_TYPE_INT32,
	"fixed64":  descriptorpb.FieldDescriptorProto_TYPE_FIXED64,
	"fixed32":  descriptorpb.FieldDescriptorProto_TYPE_FIXED32,
	"bool":     descriptorpb.FieldDescriptorProto_TYPE_BOOL,
	"string":   descriptorpb.FieldDescriptorProto_TYPE_STRING,
	"bytes":    descriptorpb.FieldDescriptorProto_TYPE_BYTES,
	"uint32":   descriptorpb.FieldDescriptorProto_TYPE_UINT32,
	"sfixed32": descriptorpb.FieldDescriptorProto_TYPE_SFIXED32,
	"sfixed64": descriptorpb.FieldDescriptorProto_TYPE_SFIXED64,
	"sint32":   descriptorpb.FieldDescriptorProto_TYPE_SINT32,
	"sint64":   descriptorpb.FieldDescriptorProto_TYPE_SINT64,
}

func setType(f *descriptorpb.FieldDescriptorProto, typ string) {
	if st, ok := scalarTypes[typ]; ok {
		f.Type = st.Enum()
		return
	}
	// unresolved: linker fills Type and rewrites TypeName.
	f.TypeName = proto.String(typ)
}

func jsonCamel(s string) string {
	var sb strings.Builder
	up := false
	for _, r := range s {
		if r == '_' {
			up = true
			continue
		}
		if up {
			sb.WriteRune(unicode.ToUpper(r))
			up = false
		} else {
			sb.WriteRune(r)
		}
	}
	return sb.String()
}

func mapEntryName(s string) string {
	var sb strings.Builder
	up := true
	for _, r := range s {
		if r == '_' {
			up = true
			continue
		}
		if up {
			sb.WriteRune(unicode.ToUpper(r))
			up = false
		} else {
			sb.WriteRune(r)
		}
	}
	return sb.String() + "Entry"
}

func (p *parser) message() (*descriptorpb.DescriptorProto, error) {
	if err := p.advance(); err != nil { // "message"
		return nil, err
	}
	name, err := p.ident()
	if err != nil {
		return nil, err
	}
	m := &descriptorpb.DescriptorProto{Name: proto.String(name)}
	if err := p.expectSym("{"); err != nil {
		return nil, err
	}
	var synthOneofs []*descriptorpb.FieldDescriptorProto
	for !p.isSym("}") {
		switch {
		case p.tok.kind == tEOF:
			return nil, p.errf("unexpected EOF in message")
		case p.isSym(";"):
			if err := p.advance(); err != nil {
				return nil, err
			}
		case p.isIdent("option"):
			if m.Options == nil {
				m.Options = &descriptorpb.MessageOptions{}
			}
			if err := p.optionStmt(m.Options); err != nil {
				return nil, err
			}
		case p.isIdent("message"):
			nm, err := p.message()
			if err != nil {
				return nil, err
			}
			m.NestedType = append(m.NestedType, nm)
		case p.isIdent("enum"):
			e, err := p.enum()
			if err != nil {
				return nil, err
			}
			m.EnumType = append(m.EnumType, e)
		case p.isIdent("oneof"):
			if err := p.advance(); err != nil {
				return nil, err
			}
			on, err := p.ident()
			if err != nil {
				return nil, err
			}
			od := &descriptorpb.OneofDescriptorProto{Name: proto.String(on)}
			idx := int32(len(m.OneofDecl))
			m.OneofDecl = append(m.OneofDecl, od)
			if err := p.expectSym("{"); err != nil {
				return nil, err
			}
			for !p.isSym("}") {
				if p.isSym(";") {
					if err := p.advance(); err != nil {
						return nil, err
					}
					continue
				}
				if p.isIdent("option") {
					if od.Options == nil {
						od.Options = &descriptorpb.OneofOptions{}
					}
					if err := p.optionStmt(od.Options); err != nil {
						return nil, err
					}
					continue
				}
				f, err := p.field(m, false)
				if err != nil {
					return nil, err
				}
				f.OneofIndex = proto.Int32(idx)
			}
			if err := p.advance(); err != nil {
				return nil, err
			}
		case p.isIdent("reserved"):
			if err := p.reserved(m); err != nil {
				return nil, err
			}
		case p.isIdent("extensions") || p.isIdent("extend") || p.isIdent("group"):
			return nil, p.errf("unsupported construct")
		default:
			f, err := p.field(m, true)
			if err != nil {
				return nil, err
			}
			if f.GetProto3Optional() {
				synthOneofs = append(synthOneofs, f)
			}
		}
	}
	for _, f := range synthOneofs {
		f.OneofIndex = proto.Int32(int32(len(m.OneofDecl)))
		m.OneofDecl = append(m.OneofDecl, &descriptorpb.OneofDescriptorProto{Name: proto.String("_" + f.GetName())})
	}
	return m, p.advance()
}

func (p *parser) reserved(m *descriptorpb.DescriptorProto) error {
	if err := p.advance(); err != nil {
		return err
	}
	for {
		if p.tok.kind == tString {
			s, err := p.stringLit()
			if err != nil {
				return err
			}
			m.ReservedName = append(m.ReservedName, s)
		} else {
			lo, err := p.intLit()
			if err != nil {
				return err
			}
			hi := lo
			if p.isIdent("to") {
				if err := p.advance(); err != nil {
					return err
				}
				if p.isIdent("max") {
					hi = 536870911
					if err := p.advance(); err != nil {
						return err
					}
				} else if hi, err = p.intLit(); err != nil {
					return err
				}
			}
			m.ReservedRange = append(m.ReservedRange, &descriptorpb.DescriptorProto_ReservedRange{Start: proto.Int32(int32(lo)), End: proto.Int32(int32(hi + 1))})
		}
		if p.isSym(",") {
			if err := p.advance(); err != nil {
				return err
			}
			continue
		}
		break
	}
	return p.expectSym(";")
}

// field parses one field (or map field) and appends it to m.
func (p *parser) field(m *descriptorpb.DescriptorProto, allowLabel bool) (*descriptorpb.FieldDescriptorProto, error) {
	f := &descriptorpb.FieldDescriptorProto{Label: descriptorpb.FieldDescriptorProto_LABEL_OPTIONAL.Enum()}
	if allowLabel {
		if p.isIdent("repeated") {
			f.Label = descriptorpb.FieldDescriptorProto_LABEL_REPEATED.Enum()
			if err := p.advance(); err != nil {
				return nil, err
			}
		} else if p.isIdent("optional") {
			f.Proto3Optional = proto.Bool(true)
			if err := p.advance(); err != nil {
				return nil, err
			}
		} else if p.isIdent("required") {
			return nil, p.errf("required not allowed in proto3")
		}
	}
	var mapKey, mapVal string
	isMap := false
	if p.isIdent("map") {
		// could be a type named map; look for '<'
		save := *p.lx
		saveTok := p.tok
		if err := p.advance(); err != nil {
			return nil, err
		}
		if p.isSym("<") {
			isMap = true
			if err := p.advance(); err != nil {
				return nil, err
			}
			k, err := p.fullIdent()
			if err != nil {
				return nil, err
			}
			mapKey = k
			if err := p.expectSym(","); err != nil {
				return nil, err
			}
			v, err := p.fullIdent()
			if err != nil {
				return nil, err
			}
			mapVal = v
			if err := p.expectSym(">"); err != nil {
				return nil, err
			}
		} else {
			*p.lx = save
			p.tok = saveTok
		}
	}
	if !isMap {
		typ, err := p.fullIdent()
		if err != nil {
			return nil, err
		}
		setType(f, typ)
	}
	name, err := p.ident()
	if err != nil {
		return nil, err
	}
	f.Name = proto.String(name)
	if err := p.expectSym("="); err != nil {
		return nil, err
	}
	num, err := p.intLit()
	if err != nil {
		return nil, err
	}
	f.Number = proto.Int32(int32(num))
	var jn *string
	if err := p.bracketOptions(func() proto.Message {
		if f.Options == nil {
			f.Options = &descriptorpb.FieldOptions{}
		}
		return f.Options
	}, &jn); err != nil {
		return nil, err
	}
	if jn != nil {
		f.JsonName = jn
	} else {
		f.JsonName = proto.String(jsonCamel(name))
	}
	if err := p.expectSym(";"); err != nil {
		return nil, err
	}
	if isMap {
		en := mapEntryName(name)
		kf := &descriptorpb.FieldDescriptorProto{
			Name: proto.String("key"), Number: proto.Int32(1), JsonName: proto.String("key"),
			Label: descriptorpb.FieldDescriptorProto_LABEL_OPTIONAL.Enum(),
		}
		setType(kf, mapKey)
		vf := &descriptorpb.FieldDescriptorProto{
			Name: proto.String("value"), Number: proto.Int32(2), JsonName: proto.String("value"),
			Label: descriptorpb.FieldDescriptorProto_LABEL_OPTIONAL.Enum(),
		}
		setType(vf, mapVal)
		m.NestedType = append(m.NestedType, &descriptorpb.DescriptorProto{
			Name:    proto.String(en),
			Field:   []*descriptorpb.FieldDescriptorProto{kf, vf},
			Options: &descriptorpb.MessageOptions{MapEntry: proto.Bool(true)},
		})
		f.Label = descriptorpb.FieldDescriptorProto_LABEL_REPEATED.Enum()
		f.TypeName = proto.String(en) // resolved relative to m by the linker
	}
	m.Field = append(m.Field, f)
	return f, nil
}

func (p *parser) enum() (*descriptorpb.EnumDescriptorProto, error) {
	if err := p.advance(); err != nil {
		return nil, err
	}
	name, err := p.ident()
	if err != nil {
		return nil, err
	}
	e := &descriptorpb.EnumDescriptorProto{Name: proto.String(name)}
	if err := p.expectSym("{"); err != nil {
		return nil, err
	}
	for !p.isSym("}") {
		switch {
		case p.tok.kind == tEOF:
			return nil, p.errf("unexpected EOF in enum")
		case p.isSym(";"):
			if err := p.advance(); err != nil {
				return nil, err
			}
		case p.isIdent("option"):
			if e.Options == nil {
				e.Options = &descriptorpb.EnumOptions{}
			}
			if err := p.optionStmt(e.Options); err != nil {
				return nil, err
			}
		case p.isIdent("reserved"):
			return nil, p.errf("enum reserved unsupported")
		default:
			vn, err := p.ident()
			if err != nil {
				return nil, err
			}
			if err := p.expectSym("="); err != nil {
				return nil, err
			}
			num, err := p.intLit()
			if err != nil {
				return nil, err
			}
			v := &descriptorpb.EnumValueDescriptorProto{Name: proto.String(vn), Number: proto.Int32(int32(num))}
			if err := p.bracketOptions(func() proto.Message {
				if v.Options == nil {
					v.Options = &descriptorpb.EnumValueOptions{}
				}
				return v.Options
			}, nil); err != nil {
				return nil, err
			}
			if err := p.expectSym(";"); err != nil {
				return nil, err
			}
			e.Value = append(e.Value, v)
		}
	}
	return e, p.advance()
}

func (p *parser) service() (*descriptorpb.ServiceDescriptorProto, error) {
	if err := p.advance(); err != nil {
		return nil, err
	}
	name, err := p.ident()
	if err != nil {
		return nil, err
	}
	s := &descriptorpb.ServiceDescriptorProto{Name: proto.String(name)}
	if err := p.expectSym("{"); err != nil {
		return nil, err
	}
	for !p.isSym("}") {
		switch {
		case p.tok.kind == tEOF:
			return nil, p.errf("unexpected EOF in service")
		case p.isSym(";"):
			if err := p.advance(); err != nil {
				return nil, err
			}
		case p.isIdent("option"):
			if s.Options == nil {
				s.Options = &descriptorpb.ServiceOptions{}
			}
			if err := p.optionStmt(s.Options); err != nil {
				return nil, err
			}
		case p.isIdent("rpc"):
			if err := p.advance(); err != nil {
				return nil, err
			}
			mn, err := p.ident()
			if err != nil {
				return nil, err
			}
			md := &descriptorpb.MethodDescriptorProto{Name: proto.String(mn)}
			parseIO := func(stream **bool, typ **string) error {
				if err := p.expectSym("("); err != nil {
					return err
				}
				if p.isIdent("stream") {
					// `stream` may also be a type name prefix; treat as keyword if followed by ident
					save := *p.lx
					saveTok := p.tok
					if err := p.advance(); err != nil {
						return err
					}
					if p.tok.kind == tIdent || p.isSym(".") {
						*stream = proto.Bool(true)
					} else {
						*p.lx = save
						p.tok = saveTok
					}
				}
				t, err := p.fullIdent()
				if err != nil {
					return err
				}
				*typ = proto.String(t)
				return p.expectSym(")")
			}
			if err := parseIO(&md.ClientStreaming, &md.InputType); err != nil {
				return nil, err
			}
			if !p.isIdent("returns") {
				return nil, p.errf("expected returns")
			}
			if err := p.advance(); err != nil {
				return nil, err
			}
			if err := parseIO(&md.ServerStreaming, &md.OutputType); err != nil {
				return nil, err
			}
			if p.isSym("{") {
				if err := p.advance(); err != nil {
					return nil, err
				}
				for !p.isSym("}") {
					if p.isSym(";") {
						if err := p.advance(); err != nil {
							return nil, err
						}
						continue
					}
					if !p.isIdent("option") {
						return nil, p.errf("expected option in rpc body")
					}
					if md.Options == nil {
						md.Options = &descriptorpb.MethodOptions{}
					}
					if err := p.optionStmt(md.Options); err != nil {
						return nil, err
					}
				}
				if err := p.advance(); err != nil {
					return nil, err
				}
			} else if err := p.expectSym(";"); err != nil {
				return nil, err
			}
			s.Method = append(s.Method, md)
		default:
			return nil, p.errf("unexpected token in service")
		}
	}
	return s, p.advance()
}
