package main

import (
	"fmt"
	"math"
	"strconv"
	"strings"

	"google.golang.org/protobuf/encoding/prototext"
	"google.golang.org/protobuf/proto"
	"google.golang.org/protobuf/reflect/protodesc"
	"google.golang.org/protobuf/reflect/protoreflect"
	"google.golang.org/protobuf/reflect/protoregistry"
	"google.golang.org/protobuf/types/descriptorpb"

	// registered descriptors for imports that are not parsed from source
	_ "github.com/envoyproxy/protoc-gen-validate/validate"
	_ "github.com/grpc-ecosystem/grpc-gateway/v2/protoc-gen-openapiv2/options"
	_ "google.golang.org/genproto/googleapis/api/annotations"
	_ "google.golang.org/protobuf/types/known/anypb"
	_ "google.golang.org/protobuf/types/known/durationpb"
	_ "google.golang.org/protobuf/types/known/emptypb"
	_ "google.golang.org/protobuf/types/known/structpb"
	_ "google.golang.org/protobuf/types/known/timestamppb"
	_ "google.golang.org/protobuf/types/known/wrapperspb"
)

type symKind int

const (
	symMessage symKind = iota + 1
	symEnum
)

type linker struct {
	parsed  map[string]*descriptorpb.FileDescriptorProto
	syms    map[string]symKind
	extDeps map[string]*descriptorpb.FileDescriptorProto // registry-provided files
}

func (lk *linker) addMsgSyms(prefix string, m *descriptorpb.DescriptorProto) {
	fn := prefix + m.GetName()
	lk.syms[fn] = symMessage
	for _, n := range m.NestedType {
		lk.addMsgSyms(fn+".", n)
	}
	for _, e := range m.EnumType {
		lk.syms[fn+"."+e.GetName()] = symEnum
	}
}

func (lk *linker) addFileSyms(fd *descriptorpb.FileDescriptorProto) {
	prefix := ""
	if fd.GetPackage() != "" {
		prefix = fd.GetPackage() + "."
	}
	for _, m := range fd.MessageType {
		lk.addMsgSyms(prefix, m)
	}
	for _, e := range fd.EnumType {
		lk.syms[prefix+e.GetName()] = symEnum
	}
}

// loadExternal pulls a file (and its deps) from the Go protobuf registry.
func (lk *linker) loadExternal(path string) error {
	if _, ok := lk.extDeps[path]; ok {
		return nil
	}
	d, err := protoregistry.GlobalFiles.FindFileByPath(path)
	if err != nil {
		return fmt.Errorf("import %q is neither a source file nor a registered descriptor: %w", path, err)
	}
	fdp := protodesc.ToFileDescriptorProto(d)
	lk.extDeps[path] = fdp
	lk.addFileSyms(fdp)
	for _, dep := range fdp.Dependency {
		if err := lk.loadExternal(dep); err != nil {
			return err
		}
	}
	return nil
}

func (lk *linker) resolve(scope, name string) (string, symKind, error) {
	if strings.HasPrefix(name, ".") {
		k, ok := lk.syms[name[1:]]
		if !ok {
			return "", 0, fmt.Errorf("unknown type %s", name)
		}
		return name, k, nil
	}
	first := name
	if i := strings.IndexByte(name, '.'); i >= 0 {
		first = name[:i]
	}
	s := scope
	for {
		// protoc rule: the innermost scope in which the first component is
		// declared wins; the rest of the name must resolve inside it.
		cand := name
		firstCand := first
		if s != "" {
			cand = s + "." + name
			firstCand = s + "." + first
		}
		if lk.declared(firstCand) {
			if k, ok := lk.syms[cand]; ok {
				return "." + cand, k, nil
			}
			// first component found but full name not: protoc reports an error,
			// unless the first component is merely a package prefix.
			if _, isSym := lk.syms[firstCand]; isSym {
				return "", 0, fmt.Errorf("%s resolves to %s which has no member %s", first, firstCand, name)
			}
		}
		if s == "" {
			break
		}
		if i := strings.LastIndexByte(s, '.'); i >= 0 {
			s = s[:i]
		} else {
			s = ""
		}
	}
	return "", 0, fmt.Errorf("unknown type %q in scope %q", name, scope)
}

// declared reports whether n is a symbol or a package prefix of a symbol.
func (lk *linker) declared(n string) bool {
	if _, ok := lk.syms[n]; ok {
		return true
	}
	p := n + "."
	for s := range lk.syms {
		if strings.HasPrefix(s, p) {
			return true
		}
	}
	return false
}

func (lk *linker) linkMsg(scope string, m *descriptorpb.DescriptorProto) error {
	fn := m.GetName()
	if scope != "" {
		fn = scope + "." + fn
	}
	for _, f := range m.Field {
		if f.Type != nil {
			continue
		}
		full, k, err := lk.resolve(fn, f.GetTypeName())
		if err != nil {
			return fmt.Errorf("field %s.%s: %w", fn, f.GetName(), err)
		}
		f.TypeName = proto.String(full)
		if k == symMessage {
			f.Type = descriptorpb.FieldDescriptorProto_TYPE_MESSAGE.Enum()
		} else {
			f.Type = descriptorpb.FieldDescriptorProto_TYPE_ENUM.Enum()
		}
	}
	for _, n := range m.NestedType {
		if err := lk.linkMsg(fn, n); err != nil {
			return err
		}
	}
	return nil
}

func (lk *linker) linkFile(fd *descriptorpb.FileDescriptorProto) error {
	for _, m := range fd.MessageType {
		if err := lk.linkMsg(fd.GetPackage(), m); err != nil {
			return err
		}
	}
	for _, s := range fd.Service {
		for _, md := range s.Method {
			in, k, err := lk.resolve(fd.GetPackage(), md.GetInputType())
			if err != nil || k != symMessage {
				return fmt.Errorf("rpc %s.%s input: %v", s.GetName(), md.GetName(), err)
			}
			md.InputType = proto.String(in)
			out, k, err := lk.resolve(fd.GetPackage(), md.GetOutputType())
			if err != nil || k != symMessage {
				return fmt.Errorf("rpc %s.%s output: %v", s.GetName(), md.GetName(), err)
			}
			md.OutputType = proto.String(out)
		}
	}
	return nil
}

// ---------- option interpretation ----------

func setScalar(m protoreflect.Message, fd protoreflect.FieldDescriptor, ro *rawOption) error {
	t := ro.scalar
	var v protoreflect.Value
	bad := func() error {
		return fmt.Errorf("%s: value %q does not fit %s field %s", ro.where, t.text, fd.Kind(), fd.FullName())
	}
	switch fd.Kind() {
	case protoreflect.BoolKind:
		if t.kind != tIdent || (t.text != "true" && t.text != "false") {
			return bad()
		}
		v = protoreflect.ValueOfBool(t.text == "true")
	case protoreflect.EnumKind:
		if t.kind != tIdent {
			return bad()
		}
		ev := fd.Enum().Values().ByName(protoreflect.Name(t.text))
		if ev == nil {
			return bad()
		}
		v = protoreflect.ValueOfEnum(ev.Number())
	case protoreflect.StringKind:
		if t.kind != tString {
			return bad()
		}
		v = protoreflect.ValueOfString(t.text)
	case protoreflect.BytesKind:
		if t.kind != tString {
			return bad()
		}
		v = protoreflect.ValueOfBytes([]byte(t.text))
	case protoreflect.Int32Kind, protoreflect.Sint32Kind, protoreflect.Sfixed32Kind,
		protoreflect.Int64Kind, protoreflect.Sint64Kind, protoreflect.Sfixed64Kind:
		if t.kind != tInt {
			return bad()
		}
		txt := t.text
		if ro.neg {
			txt = "-" + txt
		}
		bits := 64
		if fd.Kind() == protoreflect.Int32Kind || fd.Kind() == protoreflect.Sint32Kind || fd.Kind() == protoreflect.Sfixed32Kind {
			bits = 32
		}
		n, err := strconv.ParseInt(txt, 0, bits)
		if err != nil {
			return bad()
		}
		if bits == 32 {
			v = protoreflect.ValueOfInt32(int32(n))
		} else {
			v = protoreflect.ValueOfInt64(n)
		}
	case protoreflect.Uint32Kind, protoreflect.Fixed32Kind, protoreflect.Uint64Kind, protoreflect.Fixed64Kind:
		if t.kind != tInt || ro.neg {
			return bad()
		}
		bits := 64
		if fd.Kind() == protoreflect.Uint32Kind || fd.Kind() == protoreflect.Fixed32Kind {
			bits = 32
		}
		n, err := strconv.ParseUint(t.text, 0, bits)
		if err != nil {
			return bad()
		}
		if bits == 32 {
			v = protoreflect.ValueOfUint32(uint32(n))
		} else {
			v = protoreflect.ValueOfUint64(n)
		}
	case protoreflect.FloatKind, protoreflect.DoubleKind:
		var f float64
		switch {
		case t.kind == tIdent && t.text == "inf":
			f = math.Inf(1)
		case t.kind == tIdent && t.text == "nan":
			f = math.NaN()
		case t.kind == tInt || t.kind == tFloat:
			var err error
			if f, err = strconv.ParseFloat(t.text, 64); err != nil {
				return bad()
			}
		default:
			return bad()
		}
		if ro.neg {
			f = -f
		}
		if fd.Kind() == protoreflect.FloatKind {
			v = protoreflect.ValueOfFloat32(float32(f))
		} else {
			v = protoreflect.ValueOfFloat64(f)
		}
	default:
		return fmt.Errorf("%s: scalar given for %s field %s", ro.where, fd.Kind(), fd.FullName())
	}
	if fd.IsList() {
		m.Mutable(fd).List().Append(v)
	} else {
		m.Set(fd, v)
	}
	return nil
}

func applyOption(ro *rawOption) error {
	cur := ro.target.ProtoReflect()
	for i, part := range ro.name {
		var fd protoreflect.FieldDescriptor
		if part.isExt {
			xt, err := protoregistry.GlobalTypes.FindExtensionByName(protoreflect.FullName(part.name))
			if err != nil {
				return fmt.Errorf("%s: unknown extension (%s): %w", ro.where, part.name, err)
			}
			fd = xt.TypeDescriptor()
			if fd.ContainingMessage().FullName() != cur.Descriptor().FullName() {
				return fmt.Errorf("%s: extension (%s) extends %s, not %s", ro.where, part.name, fd.ContainingMessage().FullName(), cur.Descriptor().FullName())
			}
		} else {
			fd = cur.Descriptor().Fields().ByName(protoreflect.Name(part.name))
			if fd == nil {
				return fmt.Errorf("%s: %s has no field %q", ro.where, cur.Descriptor().FullName(), part.name)
			}
		}
		last := i == len(ro.name)-1
		if !last {
			if fd.Message() == nil || fd.IsList() || fd.IsMap() {
				return fmt.Errorf("%s: option path element %q is not a singular message", ro.where, part.name)
			}
			cur = cur.Mutable(fd).Message()
			continue
		}
		if ro.isAgg {
			if fd.Message() == nil || fd.IsMap() {
				return fmt.Errorf("%s: aggregate value for non-message option %s", ro.where, fd.FullName())
			}
			var sub protoreflect.Message
			if fd.IsList() {
				sub = cur.Mutable(fd).List().AppendMutable().Message()
			} else {
				sub = cur.Mutable(fd).Message()
			}
			tmp := sub.New().Interface()
			if err := (prototext.UnmarshalOptions{}).Unmarshal([]byte(ro.aggregate), tmp); err != nil {
				return fmt.Errorf("%s: aggregate for %s: %w", ro.where, fd.FullName(), err)
			}
			proto.Merge(sub.Interface(), tmp)
			return nil
		}
		return setScalar(cur, fd, ro)
	}
	return nil
}
