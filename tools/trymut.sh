#!/bin/bash
# usage: trymut.sh <abs patch.diff> <CID> [extra vcheck args]   — apply a seeded change to /repo, run the quick check, undo.
p=$1; cid=$2; shift 2
if [ -n "$(git -C /repo status --porcelain)" ]; then echo "/repo not clean"; exit 9; fi
git -C /repo apply "$p" || exit 8
(cd /verif && ./vcheck run $cid "$@" > /tmp/trymut.$cid.log 2>&1; echo "rc=$?" >> /tmp/trymut.$cid.log)
git -C /repo checkout -- . ; git -C /repo clean -fdq
grep -E "^VIOLATION|^HELD|^INCONCLUSIVE|^BUILD-ERROR|^HARNESS-ERROR|^rc=|violation unit" /tmp/trymut.$cid.log | cut -c1-300 | head -8
