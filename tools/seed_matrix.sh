#!/bin/bash
# usage: seed_matrix.sh [seed ids…]  — apply every seeded change in turn to /repo, run the quick check that is meant
# to catch it, undo, and print one line per seed.  /repo must be clean and nothing else may use it meanwhile.
# The evidence files written by these runs describe mutated trees: they are restored from git afterwards.
cd /verif
seeds=${@:-$(ls seeded | grep -E '^C[0-9]+-[a-z]$')}
for s in $seeds; do
  cid=${s%%-*}; extra=""
  case $s in
    C15-b|C15-d) cid=C17; extra="--unit cluster";;
    C17-b) cid=C05; extra="--unit measure";;
  esac
  t0=$(date +%s)
  out=$(tools/trymut.sh /verif/seeded/$s/patch.diff $cid $extra 2>&1)
  verdict=$(echo "$out" | grep -E "^VIOLATION|^HELD|^INCONCLUSIVE|^BUILD-ERROR|^HARNESS-ERROR|not clean" | head -1 | cut -c1-80)
  key=$(echo "$out" | grep -m1 "violation unit" | sed 's/^ *//' | cut -c1-160)
  echo "$s | $cid $extra | ${verdict:-NO-VERDICT} | $key | $(( $(date +%s) - t0 ))s"
done
git checkout -q -- evidence
