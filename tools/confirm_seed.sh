#!/bin/bash
# usage: confirm_seed.sh <agent dir name, e.g. m-C11> <k> <seed id, e.g. C11-a>
# Re-confirms a sub-agent's seeded change in its scratch worktree and files it under /verif/seeded/<id>/.
export GOFLAGS=-mod=mod GOPROXY=off
n=$1; k=$2; id=$3
src=/tmp/mut/$n/out/$k; wt=/tmp/mut/$n/repo; ov=/tmp/mut/$n/overlay.json
dst=/verif/seeded/$id; mkdir -p $dst
cd $wt && git checkout -q -- . && git clean -fdq
log=$dst/confirm.log; : > $log
echo "## demo on unmodified tree" >> $log
OVERLAY=$ov bash $src/run.sh $wt >> $log 2>&1; rc_clean=$?
git checkout -q -- . ; git clean -fdq
git apply $src/patch.diff || { echo "patch does not apply" >> $log; exit 1; }
echo "## build with change" >> $log
go build -overlay $ov ./banyand/... ./pkg/... ./bydbctl/... >> $log 2>&1; rc_build=$?
echo "## demo with change" >> $log
OVERLAY=$ov bash $src/run.sh $wt >> $log 2>&1; rc_mut=$?
git status --porcelain | grep -v "^ M" >> $log
echo "## pinned suite with change" >> $log
VERIF_REPO=$wt /tmp/mut/baseline.sh >> $log 2>&1; rc_base=$?
git checkout -q -- . ; git clean -fdq
cp $src/patch.diff $dst/patch.diff
mkdir -p $dst/demo; cp $src/run.sh $src/*.go $dst/demo/ 2>/dev/null
python3 - "$src/meta.json" "$dst/meta.json" "$rc_clean" "$rc_build" "$rc_mut" "$rc_base" <<'PY'
import json,sys
m=json.load(open(sys.argv[1]))
rc_clean,rc_build,rc_mut,rc_base=map(int,sys.argv[3:7])
out={"property":m.get("property"),"title":m.get("title"),"mechanism":m.get("mechanism"),"needs_to_manifest":m.get("needs_to_manifest"),
 "files":m.get("files"),"demo_dest":m.get("demo_dest"),
 "confirmed":{"demo_passes_without_change":rc_clean==0,"builds_with_change":rc_build==0,"demo_fails_with_change":rc_mut!=0,"pinned_suite_987_with_change":rc_base==0,
              "how":"tools/confirm_seed.sh in a scratch worktree of /repo HEAD (log: confirm.log)"},
 "kept": rc_clean==0 and rc_build==0 and rc_mut!=0 and rc_base==0}
json.dump(out,open(sys.argv[2],"w"),indent=1)
print(sys.argv[2], out["confirmed"], "KEPT" if out["kept"] else "REJECTED")
PY
