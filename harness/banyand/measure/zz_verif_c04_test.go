package measure

// C04 — a crash at any point recovers to a consistent durable prefix (measure engine).
//
// Parent/child harness. A child process runs a real tsTable (introducer, flusher, merger loops) and writes
// numbered batches with unique keys, logging "A <b>" after each acknowledgement and "D <n>" whenever it sees
// the first n batches held only by file parts of a snapshot whose snapshot file exists. The child runs under
// strace, which (a) records every file-system call with paths and (b) kills the whole process with SIGKILL on
// entry to the N-th call of a seeded kind (write, fsync, fdatasync, renameat, openat, mkdirat, unlinkat) — a
// crash point between or inside the engine's file-system primitives — or the parent kills it after a seeded
// delay. Three crash images are then recovered, each by a fresh child process (newTSTable with its loops, full scan, clean shutdown):
//   kill9       the directory as the kernel left it (page cache survives)
//   power-data  directory entries survive, file contents are cut back to what had been fsynced
//   power-strict additionally every entry (create, mkdir, rename) whose directory was not fsynced afterwards
//               is undone
// Verdict per image: recovery does not fail, the rows exposed are exactly batches 0..k-1 for some k with
// D <= k <= acknowledged+1, no *.tmp file and no part directory outside the loaded snapshot remains after
// recovery (and after a second recovery nothing changes).

import (
	"bufio"
	"encoding/json"
	"fmt"
	"io"
	"math/rand"
	"os"
	"os/exec"
	"path/filepath"
	"regexp"
	"sort"
	"strconv"
	"strings"
	"sync/atomic"
	"syscall"
	"testing"
	"time"

	"github.com/apache/skywalking-banyandb/api/common"
	"github.com/apache/skywalking-banyandb/banyand/protector"
	"github.com/apache/skywalking-banyandb/pkg/fs"
	"github.com/apache/skywalking-banyandb/pkg/logger"
	"github.com/apache/skywalking-banyandb/pkg/timestamp"
	"github.com/apache/skywalking-banyandb/pkg/verifh"
)

func c04Rows(seed int64, b int) []vrow {
	r := rand.New(rand.NewSource(seed*1000003 + int64(b)))
	n := 1 + r.Intn(30)
	rows := make([]vrow, n)
	for i := range rows {
		u := int64(b)*100 + int64(i) + 1
		rows[i] = vrow{sid: common.SeriesID(1 + u%3), ts: u, version: 1, uid: u, batch: b, s: fmt.Sprint("s", u%5), iv: u * 3, fv: float64(u) / 4}
	}
	return rows
}

// TestVerifC04Child is the body of the child processes; it does nothing unless C04_MODE is set.
func TestVerifC04Child(t *testing.T) {
	mode := os.Getenv("C04_MODE")
	if mode == "" {
		t.Skip("child entry point")
	}
	dir := os.Getenv("C04_DIR")
	fileSystem := fs.NewLocalFileSystem()
	switch mode {
	case "write":
		seed, _ := strconv.ParseInt(os.Getenv("C04_SEED"), 10, 64)
		nb, _ := strconv.Atoi(os.Getenv("C04_BATCHES"))
		ftMs, _ := strconv.Atoi(os.Getenv("C04_FLUSH_MS"))
		maxParts, _ := strconv.Atoi(os.Getenv("C04_MAXPARTS"))
		ack, err := os.OpenFile(os.Getenv("C04_ACK"), os.O_CREATE|os.O_WRONLY|os.O_APPEND, 0o644)
		if err != nil {
			t.Fatal(err)
		}
		tst, err := newTSTable(fileSystem, dir, common.Position{}, logger.GetLogger("verif"), timestamp.TimeRange{},
			option{flushTimeout: time.Duration(ftMs) * time.Millisecond, mergePolicy: newMergePolicy(maxParts, 1, 1<<40), protector: protector.Nop{}}, nil)
		if err != nil {
			t.Fatal(err)
		}
		var acked atomic.Int64
		var stop atomic.Bool
		go func() {
			last := int64(-1)
			for !stop.Load() {
				n := acked.Load()
				if snp := tst.currentSnapshot(); snp != nil {
					allFile := true
					for _, pw := range snp.parts {
						allFile = allFile && pw.mp == nil
					}
					epoch := snp.epoch
					snp.decRef()
					if allFile && n > last {
						if _, err := os.Stat(filepath.Join(dir, snapshotName(epoch))); err == nil {
							fmt.Fprintf(ack, "D %d\n", n)
							last = n
						}
					}
				}
				time.Sleep(300 * time.Microsecond)
			}
		}()
		r := rand.New(rand.NewSource(seed))
		for b := 0; b < nb; b++ {
			tst.mustAddDataPoints(toDataPoints(c04Rows(seed, b)))
			acked.Store(int64(b + 1))
			fmt.Fprintf(ack, "A %d\n", b)
			if r.Intn(3) == 0 {
				time.Sleep(time.Duration(r.Intn(1500)) * time.Microsecond)
			}
		}
		time.Sleep(150 * time.Millisecond)
		stop.Store(true)
		tst.Close()
		fmt.Fprintf(ack, "E\n")
	case "resume": // the node comes back, takes one more batch, flushes it and shuts down cleanly
		tst, err := newTSTable(fileSystem, dir, common.Position{}, logger.GetLogger("verif"), timestamp.TimeRange{},
			option{flushTimeout: 0, mergePolicy: newMergePolicy(3, 1, 1<<40), protector: protector.Nop{}}, nil)
		if err != nil {
			t.Fatal(err)
		}
		seed, _ := strconv.ParseInt(os.Getenv("C04_SEED"), 10, 64)
		if seed < 0 { // an idle period: the node only starts and shuts down cleanly
			time.Sleep(30 * time.Millisecond)
			tst.Close()
			os.WriteFile(os.Getenv("C04_OUT"), []byte("{}"), 0o644)
			return
		}
		tst.mustAddDataPoints(toDataPoints(c04Rows(seed, 9000)))
		for i := 0; i < 4000; i++ {
			snp := tst.currentSnapshot()
			mem := false
			for _, pw := range snp.parts {
				mem = mem || pw.mp != nil
			}
			snp.decRef()
			if !mem {
				break
			}
			time.Sleep(time.Millisecond)
		}
		tst.Close()
		os.WriteFile(os.Getenv("C04_OUT"), []byte("{}"), 0o644)
	case "verify":
		out := map[string]any{}
		func() {
			defer func() {
				if r := recover(); r != nil {
					out["panic"] = fmt.Sprint(r)
				}
			}()
			// a real start: all loops running (nothing to flush or merge: fan-in is out of reach), then a clean shutdown
			tst, err := newTSTable(fileSystem, dir, common.Position{}, logger.GetLogger("verif"), timestamp.TimeRange{},
				option{flushTimeout: 0, mergePolicy: newMergePolicy(100000, 1, 1<<40), protector: protector.Nop{}}, nil)
			if err != nil {
				out["panic"] = "open: " + err.Error()
				return
			}
			var uids []int64
			var parts []uint64
			if snp := tst.currentSnapshot(); snp != nil {
				for _, pw := range snp.parts {
					parts = append(parts, pw.ID())
				}
				out["epoch"] = snp.epoch
				snp.decRef()
				rows, err := scanTable(tst, scanOpts{orderBy: "ts-asc", sids: []common.SeriesID{1, 2, 3}})
				if err != nil {
					out["scan_error"] = err.Error()
				}
				for _, g := range rows {
					uids = append(uids, g.uid)
					if g.iv != g.uid*3 || g.ts != g.uid || int64(g.sid) != 1+g.uid%3 {
						out["row_corrupt"] = fmt.Sprintf("uid %d: series %d ts %d iv %d", g.uid, g.sid, g.ts, g.iv)
					}
				}
			}
			tst.Close()
			out["uids"], out["parts"] = uids, parts
		}()
		var names []string
		filepath.Walk(dir, func(p string, info os.FileInfo, err error) error {
			if err == nil && p != dir {
				rel, _ := filepath.Rel(dir, p)
				names = append(names, rel)
			}
			return nil
		})
		out["entries"] = names
		b, _ := json.Marshal(out)
		os.WriteFile(os.Getenv("C04_OUT"), b, 0o644)
	}
}

// ---- strace log -> durability model -------------------------------------------------------------------

type fsEntry struct {
	isDir        bool
	size, synced int64
	entryDurable bool // the name is durable (its directory was fsynced after the name appeared)
	createdInLog bool
}

type pendingRename struct {
	from, to string
	durable  bool
}

type fsModel struct {
	root    string
	entries map[string]*fsEntry
	renames []*pendingRename
	ops     map[string]int
}

var (
	reLine    = regexp.MustCompile(`^(\d+)\s+(.*)$`)
	reCall    = regexp.MustCompile(`^(\w+)\((.*)\)\s+=\s+(-?\d+|\?)(.*)$`)
	reFdPath  = regexp.MustCompile(`^\d+<([^>]*)>`)
	reQuoted  = regexp.MustCompile(`"((?:[^"\\]|\\.)*)"`)
	reRetPath = regexp.MustCompile(`^<([^>]*)>`)
)

func parseStrace(path, root string) (*fsModel, error) {
	f, err := os.Open(path)
	if err != nil {
		return nil, err
	}
	defer f.Close()
	m := &fsModel{root: root, entries: map[string]*fsEntry{}, ops: map[string]int{}}
	pending := map[string]string{}
	sc := bufio.NewScanner(f)
	sc.Buffer(make([]byte, 1<<20), 1<<24)
	under := func(p string) bool { return strings.HasPrefix(p, root+"/") }
	for sc.Scan() {
		mm := reLine.FindStringSubmatch(sc.Text())
		if mm == nil {
			continue
		}
		pid, rest := mm[1], mm[2]
		if i := strings.Index(rest, " <unfinished ...>"); i >= 0 {
			pending[pid] = rest[:i]
			continue
		}
		if strings.HasPrefix(rest, "<... ") {
			if i := strings.Index(rest, " resumed>"); i >= 0 {
				rest = pending[pid] + rest[i+len(" resumed>"):]
				delete(pending, pid)
			}
		}
		c := reCall.FindStringSubmatch(rest)
		if c == nil {
			continue
		}
		name, args, ret := c[1], c[2], c[3]
		if ret == "?" || strings.HasPrefix(ret, "-") {
			continue
		}
		switch name {
		case "openat":
			q := reQuoted.FindAllStringSubmatch(args, -1)
			if len(q) == 0 {
				continue
			}
			p := q[0][1]
			if !under(p) || !strings.Contains(args, "O_CREAT") {
				continue
			}
			e := m.entries[p]
			if e == nil {
				e = &fsEntry{createdInLog: true}
				m.entries[p] = e
			}
			if strings.Contains(args, "O_TRUNC") {
				e.size, e.synced = 0, 0
			}
			m.ops["create"]++
		case "mkdirat", "mkdir":
			q := reQuoted.FindAllStringSubmatch(args, -1)
			if len(q) == 0 || !under(q[0][1]) {
				continue
			}
			m.entries[q[0][1]] = &fsEntry{isDir: true, createdInLog: true}
			m.ops["mkdir"]++
		case "write", "pwrite64", "writev":
			fp := reFdPath.FindStringSubmatch(args)
			if fp == nil || !under(fp[1]) {
				continue
			}
			n, _ := strconv.ParseInt(ret, 10, 64)
			if e := m.entries[fp[1]]; e != nil {
				e.size += n
			}
			m.ops["write"]++
		case "fsync", "fdatasync":
			fp := reFdPath.FindStringSubmatch(args)
			if fp == nil {
				continue
			}
			p := fp[1]
			if p == root || under(p) {
				if e := m.entries[p]; e != nil && !e.isDir {
					e.synced = e.size
					m.ops["fsync-file"]++
				} else {
					// a directory: every name directly below it becomes durable
					for q, e := range m.entries {
						if filepath.Dir(q) == p {
							e.entryDurable = true
						}
					}
					for _, r := range m.renames {
						if filepath.Dir(r.to) == p {
							r.durable = true
						}
					}
					m.ops["fsync-dir"]++
				}
			}
		case "rename", "renameat", "renameat2":
			q := reQuoted.FindAllStringSubmatch(args, -1)
			if len(q) < 2 || !under(q[1][1]) {
				continue
			}
			from, to := q[0][1], q[1][1]
			if e := m.entries[from]; e != nil {
				delete(m.entries, from)
				ne := *e
				ne.entryDurable = false
				m.entries[to] = &ne
				// children of a renamed directory
				for p, ce := range m.entries {
					if strings.HasPrefix(p, from+"/") {
						delete(m.entries, p)
						m.entries[to+strings.TrimPrefix(p, from)] = ce
					}
				}
			}
			m.renames = append(m.renames, &pendingRename{from: from, to: to})
			m.ops["rename"]++
		case "unlinkat", "unlink", "rmdir":
			q := reQuoted.FindAllStringSubmatch(args, -1)
			if len(q) == 0 || !under(q[0][1]) {
				continue
			}
			delete(m.entries, q[0][1])
			m.ops["unlink"]++
		}
	}
	return m, sc.Err()
}

func copyTree(src, dst string) error {
	return filepath.Walk(src, func(p string, info os.FileInfo, err error) error {
		if err != nil {
			return nil // a file deleted underneath us by nobody: the writer is dead
		}
		rel, _ := filepath.Rel(src, p)
		t := filepath.Join(dst, rel)
		if info.IsDir() {
			return os.MkdirAll(t, 0o755)
		}
		in, err := os.Open(p)
		if err != nil {
			return nil
		}
		defer in.Close()
		out, err := os.Create(t)
		if err != nil {
			return err
		}
		defer out.Close()
		_, err = io.Copy(out, in)
		return err
	})
}

// buildImage derives a power-loss image from the directory the killed process left behind.
func (m *fsModel) buildImage(src, dst string, strict bool) (map[string]int, error) {
	if err := copyTree(src, dst); err != nil {
		return nil, err
	}
	st := map[string]int{}
	at := func(p string) string { return filepath.Join(dst, strings.TrimPrefix(p, m.root)) }
	if strict {
		for i := len(m.renames) - 1; i >= 0; i-- {
			r := m.renames[i]
			if r.durable {
				continue
			}
			if _, err := os.Lstat(at(r.to)); err == nil {
				os.Rename(at(r.to), at(r.from))
				if e := m.entries[r.to]; e != nil {
					delete(m.entries, r.to)
					m.entries[r.from] = e
				}
				st["renames_undone"]++
			}
		}
	}
	var paths []string
	for p := range m.entries {
		paths = append(paths, p)
	}
	sort.Slice(paths, func(a, b int) bool { return len(paths[a]) > len(paths[b]) })
	for _, p := range paths {
		e := m.entries[p]
		if !e.createdInLog {
			continue
		}
		if strict && !e.entryDurable {
			if _, err := os.Lstat(at(p)); err == nil {
				os.RemoveAll(at(p))
				st["entries_lost"]++
			}
			continue
		}
		if !e.isDir {
			if fi, err := os.Lstat(at(p)); err == nil && fi.Size() > e.synced {
				os.Truncate(at(p), e.synced)
				st["files_cut_to_synced_length"]++
			}
		}
	}
	return st, nil
}

// ---- parent ----------------------------------------------------------------------------------------------

type c04Result struct {
	Uids       []int64  `json:"uids"`
	Parts      []uint64 `json:"parts"`
	Entries    []string `json:"entries"`
	Panic      string   `json:"panic"`
	ScanError  string   `json:"scan_error"`
	RowCorrupt string   `json:"row_corrupt"`
	Epoch      uint64   `json:"epoch"`
}

// newestCompleteManifest looks at an image before recovery: the greatest epoch whose manifest parses and whose
// parts are all present with a metadata file. Recovery must not settle for anything older.
// newestCompleteManifest: the newest manifest file that is complete, i.e. parses.
func newestCompleteManifest(dir string) (epoch uint64, parts int, manifests int) {
	ents, _ := os.ReadDir(dir)
	for _, e := range ents {
		if e.IsDir() || filepath.Ext(e.Name()) != snapshotSuffix {
			continue
		}
		ep, err := parseSnapshot(e.Name())
		if err != nil {
			continue
		}
		b, err := os.ReadFile(filepath.Join(dir, e.Name()))
		if err != nil {
			continue
		}
		var names []string
		if json.Unmarshal(b, &names) != nil {
			continue
		}
		manifests++
		// A manifest names every part of its snapshot, memory parts included, and the loader ignores names without a
		// directory: every manifest that parses is loadable, and the newest one is the state the table had published.
		// (A part directory that is named and present must be intact - that is judged by the recovery itself.)
		if ep > epoch {
			epoch, parts = ep, len(names)
		}
	}
	return epoch, parts, manifests
}

func runVerify(dir, out string, modeSeed ...string) (*c04Result, string) {
	os.Remove(out)
	cmd := exec.Command(os.Args[0], "-test.run", "^TestVerifC04Child$", "-test.count=1")
	mode := "verify"
	if len(modeSeed) > 0 {
		mode = modeSeed[0]
	}
	cmd.Env = append(os.Environ(), "C04_MODE="+mode, "C04_DIR="+dir, "C04_OUT="+out)
	if len(modeSeed) > 1 {
		cmd.Env = append(cmd.Env, "C04_SEED="+modeSeed[1])
	}
	ob, err := cmd.CombinedOutput()
	b, rerr := os.ReadFile(out)
	if rerr != nil {
		tail := string(ob)
		if len(tail) > 1500 {
			tail = tail[len(tail)-1500:]
		}
		return nil, fmt.Sprintf("recovery process died (%v): %s", err, tail)
	}
	var r c04Result
	if err := json.Unmarshal(b, &r); err != nil {
		return nil, "unreadable recovery report: " + err.Error()
	}
	return &r, ""
}

func TestVerifC04(t *testing.T) {
	s := verifh.S()
	base := filepath.Join(verifh.Scratch(), "c04")
	os.MkdirAll(base, 0o755)
	if _, err := exec.LookPath("strace"); err != nil {
		s.Inconclusive("strace is not available")
		s.Done()
		return
	}
	kinds := []string{"write", "fsync", "fdatasync", "renameat", "renameat", "openat", "mkdirat", "unlinkat", "unlinkat", "unlinkat", "timer", "timer"}
	distinctPoints := map[string]bool{}
	twoManifestNotes := 0
	for c := 0; c < verifh.Pick(80, 450); c++ {
		r := verifh.Rand("c04", c)
		dir := filepath.Join(base, fmt.Sprintf("t%05d", c))
		os.RemoveAll(dir)
		os.MkdirAll(dir, 0o755)
		ackPath, trace, out := dir+".ack", dir+".strace", dir+".out"
		os.Remove(ackPath)
		seed := int64(c) + 1000*verifh.Seed()
		kind := kinds[r.Intn(len(kinds))]
		when := 1 + r.Intn(map[string]int{"write": 150, "fsync": 25, "fdatasync": 50, "renameat": 15, "openat": 90, "mkdirat": 10, "unlinkat": 10, "timer": 1}[kind])
		nb := 30 + r.Intn(90)
		if c < 8 {
			// directed: the first unlinks of a writer are the garbage collection of the previous snapshot manifest right
			// after a publication (when=1 is the first unlinkat of the whole process, whichever thread issues it), so
			// these cases die with two manifests on disk; the renames are the publications themselves.
			kind, when = []string{"unlinkat", "unlinkat", "unlinkat", "unlinkat", "unlinkat", "unlinkat", "renameat", "renameat"}[c], []int{1, 1, 1, 2, 2, 3, 2, 3}[c]
		}
		args := []string{"-f", "-y", "-o", trace, "-e", "trace=openat,write,pwrite64,writev,fsync,fdatasync,rename,renameat,renameat2,unlink,unlinkat,rmdir,mkdir,mkdirat,ftruncate"}
		if kind != "timer" {
			args = append(args, "-e", fmt.Sprintf("inject=%s:signal=SIGKILL:when=%d", kind, when))
		}
		args = append(args, os.Args[0], "-test.run", "^TestVerifC04Child$", "-test.count=1")
		cmd := exec.Command("strace", args...)
		cmd.Env = append(os.Environ(), "C04_MODE=write", "C04_DIR="+dir, "C04_ACK="+ackPath, fmt.Sprint("C04_SEED=", seed), fmt.Sprint("C04_BATCHES=", nb),
			fmt.Sprint("C04_FLUSH_MS=", []int{0, 0, 1, 3}[r.Intn(4)]), fmt.Sprint("C04_MAXPARTS=", 2+r.Intn(3)))
		cmd.SysProcAttr = &syscall.SysProcAttr{Setpgid: true}
		if err := cmd.Start(); err != nil {
			s.Inconclusive("cannot start strace: " + err.Error())
			break
		}
		done := make(chan error, 1)
		go func() { done <- cmd.Wait() }()
		var timer <-chan time.Time
		if kind == "timer" {
			timer = time.After(time.Duration(40+r.Intn(700)) * time.Millisecond)
		}
		select {
		case <-done:
		case <-timer:
			syscall.Kill(-cmd.Process.Pid, syscall.SIGKILL)
			<-done
		case <-time.After(120 * time.Second):
			syscall.Kill(-cmd.Process.Pid, syscall.SIGKILL)
			<-done
			s.Inconclusive(fmt.Sprintf("case %d: writer did not finish within the watchdog", c))
			continue
		}
		// what the writer acknowledged and claimed durable
		acked, durable, ended := 0, 0, false
		if b, err := os.ReadFile(ackPath); err == nil {
			for _, ln := range strings.Split(string(b), "\n") {
				var n int
				switch {
				case strings.HasPrefix(ln, "A "):
					fmt.Sscanf(ln, "A %d", &n)
					acked = n + 1
				case strings.HasPrefix(ln, "D "):
					fmt.Sscanf(ln, "D %d", &n)
					durable = max(durable, n)
				case ln == "E":
					ended = true
				}
			}
		}
		model, perr := parseStrace(trace, dir)
		if perr != nil {
			s.Inconclusive("cannot parse the strace log: " + perr.Error())
			continue
		}
		for k, v := range model.ops {
			s.Count("c04.fsops."+k, int64(v))
		}
		point := fmt.Sprintf("%s#%d", kind, when)
		if ended {
			point = "clean-exit"
			s.Count("c04.writer_finished_before_the_crash_point", 1)
		} else {
			s.Count("c04.crashes", 1)
		}
		images := []string{"kill9", "power-data", "power-strict"}
		for _, img := range images {
			idir := dir + "." + img
			os.RemoveAll(idir)
			var st map[string]int
			var err error
			switch img {
			case "kill9":
				err = copyTree(dir, idir)
			case "power-data":
				st, err = model.buildImage(dir, idir, false)
			case "power-strict":
				st, err = model.buildImage(dir, idir, true)
			}
			if err != nil {
				s.Inconclusive("cannot build image: " + err.Error())
				continue
			}
			for k, v := range st {
				s.Count("c04."+img+"."+k, int64(v))
			}
			detail := func(d map[string]any) map[string]any {
				d["case"], d["crash_point"], d["image"], d["acknowledged_batches"], d["durable_batches_claimed"], d["writer_seed"] = c, point, img, acked, durable, seed
				return d
			}
			wantEpoch, _, nManifests := newestCompleteManifest(idir)
			if nManifests >= 2 {
				s.Count("c04."+img+".images_with_two_or_more_manifests", 1)
			}
			res, died := runVerify(idir, out)
			if died != "" {
				s.Violation("c04:"+img+":recovery-fails", detail(map[string]any{"what": died}))
				os.RemoveAll(idir)
				continue
			}
			switch {
			case res.Panic != "":
				s.Violation("c04:"+img+":recovery-fails", detail(map[string]any{"what": "panic: " + res.Panic}))
			case res.ScanError != "":
				s.Violation("c04:"+img+":scan-after-recovery-fails", detail(map[string]any{"what": res.ScanError}))
			case res.RowCorrupt != "":
				s.Violation("c04:"+img+":corrupt-row-served", detail(map[string]any{"what": res.RowCorrupt}))
			default:
				// exactly a prefix of the batches
				got := map[int64]bool{}
				for _, u := range res.Uids {
					if got[u] {
						s.Violation("c04:"+img+":row-served-twice", detail(map[string]any{"uid": u}))
					}
					got[u] = true
				}
				k, bad := 0, ""
				for b := 0; b <= acked && bad == ""; b++ {
					rows := c04Rows(seed, b)
					n := 0
					for _, row := range rows {
						if got[row.uid] {
							n++
						}
					}
					switch {
					case n == len(rows) && k == b:
						k = b + 1
					case n == 0:
					case n == len(rows):
						bad = fmt.Sprintf("batch %d is present but batch %d is not: not a prefix", b, k)
					default:
						bad = fmt.Sprintf("batch %d is half there: %d of %d rows", b, n, len(rows))
					}
				}
				total := 0
				for b := 0; b < k; b++ {
					total += len(c04Rows(seed, b))
				}
				if bad == "" && total != len(got) {
					bad = fmt.Sprintf("%d rows served but batches 0..%d hold %d", len(got), k-1, total)
				}
				if nManifests >= 2 && twoManifestNotes < 6 {
					twoManifestNotes++
					s.Note(fmt.Sprintf("case %d %s image at %s: %d manifests on disk, newest complete %016x, recovery loaded %016x", c, img, point, nManifests, wantEpoch, res.Epoch))
				}
				switch {
				case wantEpoch > 0 && res.Epoch > 0 && res.Epoch < wantEpoch: // (no epoch: the loaded manifest named no part that is on disk)
					s.Violation("c04:"+img+":older-manifest-loaded-although-a-newer-complete-one-exists", detail(map[string]any{"loaded_epoch": fmt.Sprintf("%016x", res.Epoch), "newest_complete_epoch": fmt.Sprintf("%016x", wantEpoch), "manifests_on_disk": nManifests}))
				case bad != "":
					s.Violation("c04:"+img+":not-a-prefix-of-acknowledged-batches", detail(map[string]any{"what": bad}))
				case k < durable:
					s.Violation("c04:"+img+":durably-published-batches-lost", detail(map[string]any{"recovered_prefix": k}))
				}
				s.Count("c04."+img+".recoveries", 1)
				if k > 0 {
					s.Count("c04."+img+".recoveries_with_data", 1)
				}
				// leftovers
				live := map[string]bool{}
				for _, id := range res.Parts {
					live[partName(id)] = true
				}
				for _, e := range res.Entries {
					top := strings.Split(e, string(filepath.Separator))[0]
					if strings.HasSuffix(e, ".tmp") {
						s.Violation("c04:"+img+":tmp-file-left-after-recovery", detail(map[string]any{"entry": e}))
						break
					}
					if len(top) == 16 && !live[top] {
						if _, err := parseEpoch(top); err == nil {
							s.Violation("c04:"+img+":part-outside-the-snapshot-left-after-recovery", detail(map[string]any{"entry": e}))
							break
						}
					}
				}
				// a second recovery sees the same data
				res2, died2 := runVerify(idir, out)
				if died2 != "" || res2.Panic != "" {
					s.Violation("c04:"+img+":second-recovery-fails", detail(map[string]any{"what": died2 + res2.Panic}))
				} else if len(res2.Uids) != len(res.Uids) {
					s.Violation("c04:"+img+":second-recovery-differs", detail(map[string]any{"first": len(res.Uids), "second": len(res2.Uids)}))
				} else if _, diedI := runVerify(idir, out, "resume", "-1"); diedI != "" {
					s.Violation("c04:"+img+":idle-start-and-clean-shutdown-fails", detail(map[string]any{"what": diedI}))
				} else if resI, diedV := runVerify(idir, out); diedV != "" || resI.Panic != "" {
					s.Violation("c04:"+img+":start-after-idle-clean-shutdown-fails", detail(map[string]any{"what": diedV}))
				} else if len(resI.Uids) != len(res.Uids) {
					s.Violation("c04:"+img+":data-lost-after-idle-start-and-clean-shutdown", detail(map[string]any{"rows_after_recovery": len(res.Uids), "rows_after_clean_restart": len(resI.Uids)}))
				} else if _, died3 := runVerify(idir, out, "resume", fmt.Sprint(seed)); died3 != "" {
					// the node resumes service (loops on), takes one more batch, shuts down cleanly, starts again
					s.Violation("c04:"+img+":resumed-node-fails", detail(map[string]any{"what": died3}))
				} else if res4, died4 := runVerify(idir, out); died4 != "" || res4.Panic != "" {
					s.Violation("c04:"+img+":start-after-clean-shutdown-fails", detail(map[string]any{"what": died4}))
				} else if want := len(res.Uids) + len(c04Rows(seed, 9000)); len(res4.Uids) != want {
					s.Violation("c04:"+img+":data-lost-after-resume-and-clean-restart", detail(map[string]any{"rows_after_recovery": len(res.Uids), "rows_of_the_extra_batch": len(c04Rows(seed, 9000)), "rows_after_clean_restart": len(res4.Uids)}))
				} else {
					s.Count("c04."+img+".resume_and_clean_restart_cycles", 1)
				}
			}
			os.RemoveAll(idir)
		}
		distinctPoints[point] = true
		s.Case(fmt.Sprintf("%s/nb=%d/acked=%d", point, nb, acked), !ended && acked > 0)
		if c < 3 {
			s.Sample(map[string]any{"crash_point": point, "acknowledged_batches": acked, "durable_batches_claimed": durable, "fs_ops_recorded": model.ops})
		}
		os.RemoveAll(dir)
		os.Remove(ackPath)
		os.Remove(trace)
		os.Remove(out)
	}
	s.Count("c04.distinct_crash_points", int64(len(distinctPoints)))
	os.RemoveAll(base)
	s.Done()
}
