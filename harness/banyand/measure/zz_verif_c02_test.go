package measure

// C02 — highest version wins: one point per (series, timestamp), independent of arrival order, batch
// composition and part layout. Small scopes are enumerated completely; large multisets are seeded.

import (
	"fmt"
	"os"
	"path/filepath"
	"testing"

	"github.com/apache/skywalking-banyandb/api/common"
	"github.com/apache/skywalking-banyandb/pkg/fs"
	"github.com/apache/skywalking-banyandb/pkg/verifh"
)

type layout string

const (
	layMem        layout = "all-in-memory"           // query heap decides (or the batch builder inside one batch)
	layFlushed    layout = "one-file-part-per-batch" // query heap decides across file parts
	layMergedAll  layout = "merged-all-at-once"      // mergeTwoBlocks decides
	layMergedPair layout = "merged-pairwise-chain"   // merge of a merge
	layMixed      layout = "first-half-merged-rest-memory"
)

var layouts = []layout{layMem, layFlushed, layMergedAll, layMergedPair, layMixed}

// runLayout writes the batches in order into a fresh table, shapes the parts as the layout says, scans in
// the three orders and compares with the reference. Returns "" or the first discrepancy.
var dirSeq int

func runLayout(base string, fileSystem fs.FileSystem, batches [][]vrow, lay layout, sids []common.SeriesID, s *verifh.Sink) string {
	// a fresh directory per table: a closed table may still be removing its own files
	dirSeq++
	dir := filepath.Join(base, fmt.Sprint(dirSeq))
	os.MkdirAll(dir, 0o755)
	defer os.RemoveAll(dir)
	st := openStepTable(dir, fileSystem)
	defer func() { st.close() }()
	var all []vrow
	for _, b := range batches {
		st.write(b)
		all = append(all, b...)
		if lay == layFlushed || lay == layMergedAll || lay == layMergedPair {
			st.flush()
		}
	}
	switch lay {
	case layMergedAll:
		ids, _ := st.partIDs()
		if len(ids) >= 2 {
			if _, err := st.merge(ids); err != nil {
				return "merge failed: " + err.Error()
			}
			s.Count("c02.merges", 1)
		}
	case layMergedPair:
		for {
			ids, _ := st.partIDs()
			if len(ids) < 2 {
				break
			}
			if _, err := st.merge(ids[:2]); err != nil {
				return "merge failed: " + err.Error()
			}
			s.Count("c02.merges", 1)
		}
	case layMixed:
		// flush and merge what exists after the first half, keep the rest in memory: rebuild
		st.close()
		dir = dir + "m"
		os.MkdirAll(dir, 0o755)
		defer os.RemoveAll(dir)
		st = openStepTable(dir, fileSystem)
		all = all[:0]
		half := (len(batches) + 1) / 2
		for i, b := range batches {
			st.write(b)
			all = append(all, b...)
			if i < half {
				st.flush()
			}
			if i == half-1 {
				ids, _ := st.partIDs()
				if len(ids) >= 2 {
					if _, err := st.merge(ids); err != nil {
						return "merge failed: " + err.Error()
					}
					s.Count("c02.merges", 1)
				}
			}
		}
	}
	for _, ob := range []string{"ts-asc", "ts-desc", "series"} {
		o := scanOpts{orderBy: ob, sids: sids}
		rows, err := st.scan(o)
		if err != nil {
			return "scan failed: " + err.Error()
		}
		if d := compare(rows, all, o); d != "" {
			return fmt.Sprintf("[%s order=%s] %s", lay, ob, d)
		}
		if d := orderViolation(rows, ob); d != "" {
			return fmt.Sprintf("[%s order=%s] %s", lay, ob, d)
		}
	}
	return ""
}

func describe(batches [][]vrow) string {
	out := ""
	for i, b := range batches {
		if i > 0 {
			out += " | "
		}
		for j, r := range b {
			if j > 0 {
				out += ","
			}
			out += fmt.Sprintf("s%d@%d v%d", r.sid, r.ts, r.version)
		}
	}
	return out
}

func TestVerifC02(t *testing.T) {
	s := verifh.S()
	fileSystem := fs.NewLocalFileSystem()
	dir := filepath.Join(verifh.Scratch(), "c02")
	sids := []common.SeriesID{1, 2, 3}

	// --- exhaustive small scope: all arrival sequences of length 1..L over {ts 1,2} x {version 1,2,3} for one series,
	// every split of the sequence into consecutive batches, every layout.
	type pt struct{ ts, ver int64 }
	var dom []pt
	for ts := int64(1); ts <= 2; ts++ {
		for v := int64(1); v <= 3; v++ {
			dom = append(dom, pt{ts, v})
		}
	}
	maxLen := verifh.Pick(3, 4)
	var uid int64
	var seq []pt
	var sequences int64
	var rec func()
	rec = func() {
		if len(seq) > 0 {
			sequences++
			k := len(seq)
			for split := 0; split < 1<<(k-1); split++ { // bit i set: a batch boundary after element i
				var batches [][]vrow
				var cur []vrow
				collide := false
				seen := map[int64]bool{}
				for i, p := range seq {
					uid++
					cur = append(cur, vrow{sid: 1, ts: p.ts, version: p.ver, uid: uid, s: fmt.Sprint("u", uid), iv: uid * 7, fv: float64(uid) / 4})
					if seen[p.ts] {
						collide = true
					}
					seen[p.ts] = true
					if i == k-1 || split&(1<<i) != 0 {
						batches = append(batches, cur)
						cur = nil
					}
				}
				for _, lay := range layouts {
					if len(batches) == 1 && lay != layMem && lay != layFlushed {
						continue
					}
					d := runLayout(dir, fileSystem, batches, lay, sids, s)
					s.Case(fmt.Sprintf("%s/%s", describe(batches), lay), collide)
					s.Count("c02.layout."+string(lay), 1)
					if d != "" {
						s.Violation("c02:"+string(lay)+":"+describe(batches), map[string]any{"batches": describe(batches), "layout": lay, "discrepancy": d})
					}
				}
			}
		}
		if len(seq) == maxLen {
			return
		}
		for _, p := range dom {
			seq = append(seq, p)
			rec()
			seq = seq[:len(seq)-1]
		}
	}
	rec()
	s.Count("c02.exhaustive_sequences", sequences)
	s.Sample(map[string]any{"batches": "s1@1 v2,s1@1 v3 | s1@1 v3 | s1@2 v1", "layout": layMergedPair, "oracle": "one row per (series,ts); version = max; uid among the rows holding max; identical in ts-asc/ts-desc/series order"})

	// --- seeded large multisets: several series, many duplicates across 2..6 batches, every layout
	n := verifh.Pick(40, 600)
	for i := 0; i < n; i++ {
		r := verifh.Rand("c02big", i)
		nb := 2 + r.Intn(5)
		var batches [][]vrow
		for b := 0; b < nb; b++ {
			batches = append(batches, genRows(r, b, 1+r.Intn(300), 1+r.Intn(3), 1+r.Intn(40), &uid, []int64{1, 2, 2, 3, 5, 9}))
		}
		lay := layouts[i%len(layouts)]
		d := runLayout(dir, fileSystem, batches, lay, sids, s)
		s.Case(fmt.Sprintf("big/%d/%s", i, lay), true)
		s.Count("c02.layout."+string(lay), 1)
		if d != "" {
			s.Violation(fmt.Sprintf("c02:big:%s:seed-case-%d", lay, i), map[string]any{"layout": lay, "case": i, "batches": nb, "discrepancy": d})
		}
	}
	os.RemoveAll(dir)
	s.Done()
}
