package measure

// Shared white-box machinery for the measure engine checks (C02, C03, C04, C05):
// a naive reference model, a seeded generator, a stepped driver in which the harness is the scheduler
// (write / flush / merge(subset) are invoked one at a time and awaited), and a full scan through the real
// query path (snapshot -> getParts -> searchBlocks -> queryResult.Pull).

import (
	"context"
	"fmt"
	"math"
	"math/rand"
	"sort"
	"strings"
	"sync"

	"github.com/apache/skywalking-banyandb/api/common"
	modelv1 "github.com/apache/skywalking-banyandb/api/proto/banyandb/model/v1"
	"github.com/apache/skywalking-banyandb/banyand/internal/storage"
	"github.com/apache/skywalking-banyandb/banyand/protector"
	"github.com/apache/skywalking-banyandb/pkg/convert"
	"github.com/apache/skywalking-banyandb/pkg/fs"
	"github.com/apache/skywalking-banyandb/pkg/logger"
	pbv1 "github.com/apache/skywalking-banyandb/pkg/pb/v1"
	"github.com/apache/skywalking-banyandb/pkg/query/model"
	"github.com/apache/skywalking-banyandb/pkg/run"
	"github.com/apache/skywalking-banyandb/pkg/watcher"
)

// vrow is one written data point. uid is unique per write, so a read identifies the write it observed.
type vrow struct {
	s       string
	arr     []string
	sid     common.SeriesID
	ts      int64
	version int64
	uid     int64
	iv      int64
	fv      float64
	batch   int
	xInt    int64 // the conflict tag "x": written as int when xKind==1, as str when xKind==2, absent when 0
	xKind   int
}

func (r vrow) String() string {
	return fmt.Sprintf("{sid=%d ts=%d ver=%d uid=%d b=%d}", r.sid, r.ts, r.version, r.uid, r.batch)
}

type vkey struct {
	sid common.SeriesID
	ts  int64
}

// resolve is the reference: one row per (series, ts); the greatest version wins (any of the tied ones).
type resolved struct {
	winners map[int64]vrow // uid -> row, all rows holding the maximal version
	version int64
}

func resolve(rows []vrow) map[vkey]*resolved {
	out := map[vkey]*resolved{}
	for _, r := range rows {
		k := vkey{r.sid, r.ts}
		cur := out[k]
		if cur == nil || r.version > cur.version {
			cur = &resolved{version: r.version, winners: map[int64]vrow{}}
			out[k] = cur
		}
		if r.version == cur.version {
			cur.winners[r.uid] = r
		}
	}
	return out
}

// one cache object per table, as a shard has in production (every query passes the shard's cache)
var (
	cacheMu sync.Mutex
	caches  = map[*tsTable]storage.Cache{}
)

func cacheOf(tst *tsTable) storage.Cache {
	cacheMu.Lock()
	defer cacheMu.Unlock()
	c, ok := caches[tst]
	if !ok {
		if len(caches) > 64 {
			caches = map[*tsTable]storage.Cache{}
		}
		c = storage.NewShardCache("verif", 0, 0)
		caches[tst] = c
	}
	return c
}

const fam = "tf"

var (
	vTagProjection = []model.TagProjection{{Family: fam, Names: []string{"uid", "s", "arr", "x"}}}
	vFieldNames    = []string{"iv", "fv"}
)

func schemaTypes(xType pbv1.ValueType) map[string]pbv1.ValueType {
	return map[string]pbv1.ValueType{"uid": pbv1.ValueTypeInt64, "s": pbv1.ValueTypeStr, "arr": pbv1.ValueTypeStrArr, "x": xType}
}

func toDataPoints(rows []vrow) *dataPoints {
	dps := &dataPoints{}
	for _, r := range rows {
		dps.seriesIDs = append(dps.seriesIDs, r.sid)
		dps.timestamps = append(dps.timestamps, r.ts)
		dps.versions = append(dps.versions, r.version)
		vals := []*nameValue{
			{name: "uid", valueType: pbv1.ValueTypeInt64, value: convert.Int64ToBytes(r.uid)},
			{name: "s", valueType: pbv1.ValueTypeStr, value: []byte(r.s)},
		}
		// every row carries every schema tag, nulls as nil values, exactly like the write path does
		nv := &nameValue{name: "arr", valueType: pbv1.ValueTypeStrArr}
		for _, a := range r.arr {
			nv.valueArr = append(nv.valueArr, []byte(a))
		}
		vals = append(vals, nv)
		switch r.xKind { // the type of "x" is a property of the whole batch (the schema in force when it was written)
		case 1:
			vals = append(vals, &nameValue{name: "x", valueType: pbv1.ValueTypeInt64, value: convert.Int64ToBytes(r.xInt)})
		case 2:
			vals = append(vals, &nameValue{name: "x", valueType: pbv1.ValueTypeStr, value: []byte(fmt.Sprint("x", r.xInt))})
		}
		dps.tagFamilies = append(dps.tagFamilies, []nameValues{{name: fam, values: vals}})
		dps.fields = append(dps.fields, nameValues{name: "skipped", values: []*nameValue{
			{name: "iv", valueType: pbv1.ValueTypeInt64, value: convert.Int64ToBytes(r.iv)},
			{name: "fv", valueType: pbv1.ValueTypeFloat64, value: convert.Float64ToBytes(r.fv)},
		}})
	}
	return dps
}

// got is one row as returned by a scan.
type got struct {
	s       string
	x       string
	arr     []string
	sid     common.SeriesID
	ts      int64
	version int64
	uid     int64
	iv      int64
	fvBits  uint64
	hasArr  bool
}

// stepTable drives a real tsTable with only the introducer goroutine running.
type stepTable struct {
	tst       *tsTable
	flushCh   chan *flusherIntroduction
	mergeCh   chan *mergerIntroduction
	watcherCh watcher.Channel
	root      string
}

func openStepTable(root string, fileSystem fs.FileSystem) *stepTable {
	st := &stepTable{root: root}
	tst, epoch := initTSTable(fileSystem, root, common.Position{}, logger.GetLogger("verif"),
		option{flushTimeout: 0, mergePolicy: newDefaultMergePolicyForTesting(), protector: protector.Nop{}}, nil)
	st.tst = tst
	tst.loopCloser = run.NewCloser(1 + 1)
	tst.introductions = make(chan *introduction)
	st.flushCh = make(chan *flusherIntroduction)
	st.mergeCh = make(chan *mergerIntroduction)
	st.watcherCh = make(watcher.Channel, 1)
	go tst.introducerLoop(st.flushCh, st.mergeCh, st.watcherCh, epoch+1)
	return st
}

func (st *stepTable) write(rows []vrow) {
	st.tst.mustAddDataPoints(toDataPoints(rows))
}

// flush flushes every memory part of the current snapshot (the flusher's own function) and waits for the introduction.
func (st *stepTable) flush() bool {
	s := st.tst.currentSnapshot()
	if s == nil {
		return false
	}
	defer s.decRef()
	has := false
	for _, pw := range s.parts {
		if pw.mp != nil {
			has = true
		}
	}
	if !has {
		return false
	}
	st.tst.flush(s, st.flushCh)
	return true
}

// partIDs lists the ids of the current snapshot's parts; file reports which are on disk.
func (st *stepTable) partIDs() (ids []uint64, file map[uint64]bool) {
	file = map[uint64]bool{}
	s := st.tst.currentSnapshot()
	if s == nil {
		return nil, file
	}
	defer s.decRef()
	for _, pw := range s.parts {
		ids = append(ids, pw.ID())
		file[pw.ID()] = pw.mp == nil
	}
	return ids, file
}

// merge merges exactly the given parts of the current snapshot through the merger's own function.
func (st *stepTable) merge(ids []uint64) (uint64, error) {
	s := st.tst.currentSnapshot()
	if s == nil {
		return 0, fmt.Errorf("no snapshot")
	}
	defer s.decRef()
	want := map[uint64]struct{}{}
	for _, id := range ids {
		want[id] = struct{}{}
	}
	var parts []*partWrapper
	for _, pw := range s.parts {
		if _, ok := want[pw.ID()]; ok {
			parts = append(parts, pw)
		}
	}
	if len(parts) != len(ids) {
		return 0, fmt.Errorf("parts %v not all in snapshot", ids)
	}
	closeCh := make(chan struct{})
	defer close(closeCh)
	np, err := st.tst.mergePartsThenSendIntroduction(snapshotCreatorMerger, parts, want, st.mergeCh, closeCh, "file")
	if err != nil {
		return 0, err
	}
	return np.ID(), nil
}

func (st *stepTable) close() {
	st.tst.Close()
}

type scanOpts struct {
	xType     pbv1.ValueType
	orderBy   string // "ts-asc", "ts-desc", "series"
	minTS     int64
	maxTS     int64
	sids      []common.SeriesID
	snapshot  *snapshot // optional: scan this pinned snapshot instead of the current one
	perSeries bool
}

// scan runs a full query over the table and returns the rows in the order the query produced them.
func (st *stepTable) scan(o scanOpts) ([]got, error) {
	return scanTable(st.tst, o)
}

func scanTable(tst *tsTable, o scanOpts) (out []got, err error) {
	if o.xType == pbv1.ValueTypeUnknown {
		o.xType = pbv1.ValueTypeInt64
	}
	if o.maxTS == 0 {
		o.minTS, o.maxTS = math.MinInt64, math.MaxInt64
	}
	s := o.snapshot
	if s == nil {
		s = tst.currentSnapshot()
		if s == nil {
			return nil, nil
		}
		defer s.decRef()
	}
	qo := queryOptions{schemaTagTypes: schemaTypes(o.xType), minTimestamp: o.minTS, maxTimestamp: o.maxTS}
	qo.TagProjection = vTagProjection
	qo.FieldProjection = vFieldNames
	pp, _ := s.getParts(nil, cacheOf(tst), o.minTS, o.maxTS)
	m := &measure{pm: protector.Nop{}}
	var result queryResult
	result.ctx = context.Background()
	result.tagProjection = vTagProjection
	sids := append([]common.SeriesID(nil), o.sids...)
	if err := m.searchBlocks(context.Background(), &result, sids, pp, qo); err != nil {
		return nil, err
	}
	defer result.Release()
	switch o.orderBy {
	case "series":
	case "ts-desc":
		result.orderByTS, result.ascTS = true, false
	default:
		result.orderByTS, result.ascTS = true, true
	}
	for {
		r := result.Pull()
		if r == nil {
			break
		}
		if r.Error != nil {
			return out, r.Error
		}
		for i := range r.Timestamps {
			g := got{sid: r.SID, ts: r.Timestamps[i], version: r.Versions[i], uid: math.MinInt64}
			for _, tf := range r.TagFamilies {
				for _, t := range tf.Tags {
					if i >= len(t.Values) {
						return out, fmt.Errorf("tag %s has %d values for %d rows", t.Name, len(t.Values), len(r.Timestamps))
					}
					v := t.Values[i]
					switch t.Name {
					case "uid":
						if iv, ok := v.Value.(*modelv1.TagValue_Int); ok {
							g.uid = iv.Int.Value
						}
					case "s":
						g.s = v.GetStr().GetValue()
					case "arr":
						if a, ok := v.Value.(*modelv1.TagValue_StrArray); ok {
							g.arr, g.hasArr = a.StrArray.Value, true
						}
					case "x":
						switch xv := v.Value.(type) {
						case *modelv1.TagValue_Int:
							g.x = fmt.Sprint("i", xv.Int.Value)
						case *modelv1.TagValue_Str:
							g.x = "s" + xv.Str.Value
						default:
							g.x = "null"
						}
					}
				}
			}
			for _, f := range r.Fields {
				if i >= len(f.Values) {
					return out, fmt.Errorf("field %s has %d values for %d rows", f.Name, len(f.Values), len(r.Timestamps))
				}
				switch f.Name {
				case "iv":
					g.iv = f.Values[i].GetInt().GetValue()
				case "fv":
					g.fvBits = math.Float64bits(f.Values[i].GetFloat().GetValue())
				}
			}
			out = append(out, g)
		}
	}
	return out, nil
}

// expectX is what the conflict tag reads back as under a schema that declares it with xType.
func expectX(r vrow, xType pbv1.ValueType) string {
	switch {
	case r.xKind == 1 && xType == pbv1.ValueTypeInt64:
		return fmt.Sprint("i", r.xInt)
	case r.xKind == 2 && xType == pbv1.ValueTypeStr:
		return fmt.Sprint("sx", r.xInt)
	}
	return "null"
}

// compare checks a scan against the reference. It returns a description of the first discrepancy, or "".
func compare(gotRows []got, written []vrow, o scanOpts) string {
	if o.xType == pbv1.ValueTypeUnknown {
		o.xType = pbv1.ValueTypeInt64
	}
	var in []vrow
	for _, r := range written {
		if o.maxTS != 0 && (r.ts < o.minTS || r.ts > o.maxTS) {
			continue
		}
		in = append(in, r)
	}
	ref := resolve(in)
	seen := map[vkey]bool{}
	for _, g := range gotRows {
		k := vkey{g.sid, g.ts}
		if seen[k] {
			return fmt.Sprintf("two rows returned for series %d ts %d", g.sid, g.ts)
		}
		seen[k] = true
		want := ref[k]
		if want == nil {
			return fmt.Sprintf("row returned that was never written: sid=%d ts=%d uid=%d", g.sid, g.ts, g.uid)
		}
		if g.version != want.version {
			return fmt.Sprintf("series %d ts %d: version %d returned, greatest written version is %d (uid returned %d)", g.sid, g.ts, g.version, want.version, g.uid)
		}
		w, ok := want.winners[g.uid]
		if !ok {
			return fmt.Sprintf("series %d ts %d: returned uid %d does not hold the greatest version %d", g.sid, g.ts, g.uid, want.version)
		}
		if g.s != w.s || g.iv != w.iv || g.fvBits != math.Float64bits(w.fv) {
			return fmt.Sprintf("series %d ts %d uid %d: values differ: got s=%q iv=%d fv=%x want s=%q iv=%d fv=%x", g.sid, g.ts, g.uid, g.s, g.iv, g.fvBits, w.s, w.iv, math.Float64bits(w.fv))
		}
		if (w.arr != nil) != g.hasArr || strings.Join(w.arr, "\x00") != strings.Join(g.arr, "\x00") {
			return fmt.Sprintf("series %d ts %d uid %d: array tag differs: got %q (present=%v) want %q", g.sid, g.ts, g.uid, g.arr, g.hasArr, w.arr)
		}
		if ex := expectX(w, o.xType); g.x != ex {
			return fmt.Sprintf("series %d ts %d uid %d: conflict tag x reads %q, want %q under schema type %v", g.sid, g.ts, g.uid, g.x, ex, o.xType)
		}
	}
	if len(seen) != len(ref) {
		for k := range ref {
			if !seen[k] {
				return fmt.Sprintf("written row missing from the result: series %d ts %d (%d of %d keys returned)", k.sid, k.ts, len(seen), len(ref))
			}
		}
	}
	return ""
}

// orderViolation checks the order the rows were produced in.
func orderViolation(rows []got, orderBy string) string {
	for i := 1; i < len(rows); i++ {
		a, b := rows[i-1], rows[i]
		switch orderBy {
		case "ts-desc":
			if a.ts < b.ts {
				return fmt.Sprintf("descending time order broken at %d: ts %d before %d", i, a.ts, b.ts)
			}
		case "series":
			if a.sid == b.sid && a.ts > b.ts {
				return fmt.Sprintf("time order inside series %d broken at %d", a.sid, i)
			}
		default:
			if a.ts > b.ts {
				return fmt.Sprintf("ascending time order broken at %d: ts %d before %d", i, a.ts, b.ts)
			}
		}
	}
	return ""
}

var hostileF = []float64{0, 1, -1, 0.1, 1e300, -1e-300, 15832.827774512765, math.Inf(1), math.MaxFloat64, 5e-324, 123456789.12345679, 99.99, 1 << 53}

// genRows makes n rows over nSeries series and a small timestamp domain so that (series, ts) collide.
func genRows(r *rand.Rand, batch, n, nSeries, tsDomain int, uid *int64, versions []int64) []vrow {
	rows := make([]vrow, n)
	for i := range rows {
		*uid++
		rows[i] = vrow{
			sid: common.SeriesID(1 + r.Intn(nSeries)), ts: int64(1 + r.Intn(tsDomain)), version: versions[r.Intn(len(versions))],
			uid: *uid, batch: batch, s: fmt.Sprintf("s%d", r.Intn(5)), iv: int64(r.Uint64()) >> uint(r.Intn(64)), fv: hostileF[r.Intn(len(hostileF))],
		}
		if r.Intn(3) == 0 {
			rows[i].arr = []string{"a|b", fmt.Sprint(*uid), ""}[:1+r.Intn(3)]
		}
		if r.Intn(2) == 0 {
			rows[i].fv = float64(r.Intn(100000)) / 100
		}
	}
	return rows
}

func sortGot(rows []got) {
	sort.Slice(rows, func(i, j int) bool {
		if rows[i].sid != rows[j].sid {
			return rows[i].sid < rows[j].sid
		}
		return rows[i].ts < rows[j].ts
	})
}

func fingerprint(rows []got) string {
	c := append([]got(nil), rows...)
	sortGot(c)
	var sb strings.Builder
	for _, g := range c {
		fmt.Fprintf(&sb, "%d/%d/%d;", g.sid, g.ts, g.version)
	}
	return sb.String()
}
