package measure

// C05 — queries see one consistent snapshot while maintenance runs (measure engine).
//
// Two modes over the real tsTable:
//   - step: the write-queue history shapes (memory parts tagged with segment ids, the flusher's
//     mergeMemParts, flush, file merges) driven one operation at a time; after every operation the published
//     snapshot is judged: conservation (Σ part row counts == rows written: keys are unique, so a merged part
//     together with its inputs, or neither of them, changes the sum), scan == model, part directories on disk.
//   - live: the real introducer/flusher/merger loops with a non-zero flush timeout (memory parts pile up and
//     are merged per segment) under concurrent writers and readers; every reader pins a snapshot and checks
//     conservation on it, scans it (the files of a pinned snapshot must stay readable), compares with what had
//     been acknowledged before the pin, and checks that batches are all-or-nothing. Runs under -race.

import (
	"fmt"
	"math/rand"
	"os"
	"path/filepath"
	"sort"
	"sync"
	"sync/atomic"
	"testing"
	"time"

	"github.com/apache/skywalking-banyandb/api/common"
	"github.com/apache/skywalking-banyandb/banyand/internal/storage"
	"github.com/apache/skywalking-banyandb/banyand/protector"
	"github.com/apache/skywalking-banyandb/pkg/fs"
	"github.com/apache/skywalking-banyandb/pkg/logger"
	"github.com/apache/skywalking-banyandb/pkg/timestamp"
	"github.com/apache/skywalking-banyandb/pkg/verifh"
)

// uniqueRows: n rows with keys nobody else uses (ts = uid), so row counts are conserved by merges.
func uniqueRows(r *rand.Rand, batch, n int, uid *int64) []vrow {
	rows := make([]vrow, n)
	for i := range rows {
		*uid++
		rows[i] = vrow{sid: common.SeriesID(1 + r.Intn(3)), ts: *uid, version: 1, uid: *uid, batch: batch, s: fmt.Sprintf("s%d", r.Intn(5)), iv: int64(r.Intn(1000)), fv: float64(r.Intn(1000)) / 4}
	}
	return rows
}

type snapFacts struct {
	sig      string
	rows     uint64
	mem      int
	file     int
	dupIDs   bool
	fileIDs  []uint64
	segments map[int64]int
}

func factsOf(s *snapshot) snapFacts {
	f := snapFacts{segments: map[int64]int{}}
	seen := map[uint64]bool{}
	for _, pw := range s.parts {
		if seen[pw.ID()] {
			f.dupIDs = true
		}
		seen[pw.ID()] = true
		if pw.mp != nil {
			f.mem++
			f.rows += pw.mp.partMetadata.TotalCount
			f.segments[pw.mp.segmentID]++
		} else {
			f.file++
			f.rows += pw.p.partMetadata.TotalCount
			f.fileIDs = append(f.fileIDs, pw.ID())
		}
		f.sig += fmt.Sprintf("%d%s,", pw.ID(), map[bool]string{true: "m", false: "f"}[pw.mp != nil])
	}
	return f
}

// diskParts lists the part directories (16 hex digits) below root.
func diskParts(root string) map[uint64]bool {
	out := map[uint64]bool{}
	ents, _ := os.ReadDir(root)
	for _, e := range ents {
		if !e.IsDir() {
			continue
		}
		if id, err := parseEpoch(e.Name()); err == nil {
			out[id] = true
		}
	}
	return out
}

// settledDisk polls (bounded) until the part directories equal keep: the engine removes the files of a replaced
// part in a goroutine of its own, so the removal may trail Close by a moment.
// manifestParts returns the part ids named by the newest snapshot manifest on disk: what a restart will load.
// (A table's background loops may still publish between the harness' last look at the snapshot and Close.)
func manifestParts(fileSystem fs.FileSystem, dir string) (map[uint64]bool, bool) {
	var newest uint64
	found := false
	ents, _ := os.ReadDir(dir)
	for _, e := range ents {
		if id, err := parseSnapshot(e.Name()); err == nil && (!found || id > newest) {
			newest, found = id, true
		}
	}
	if !found {
		return nil, false
	}
	names, err := storage.ReadSnapshotPartNames(fileSystem, filepath.Join(dir, snapshotName(newest)))
	if err != nil {
		return nil, false
	}
	keep := map[uint64]bool{}
	for _, n := range names {
		if id, err := parseEpoch(n); err == nil {
			keep[id] = true
		}
	}
	return keep, true
}

func settledDisk(dir string, keep map[uint64]bool) (left []uint64, missing []uint64) {
	for i := 0; i < 400; i++ {
		left, missing = left[:0], missing[:0]
		disk := diskParts(dir)
		for id := range disk {
			if !keep[id] {
				left = append(left, id)
			}
		}
		for id := range keep {
			if !disk[id] {
				missing = append(missing, id)
			}
		}
		if len(left) == 0 || len(missing) > 0 {
			break
		}
		time.Sleep(5 * time.Millisecond)
	}
	sort.Slice(left, func(a, b int) bool { return left[a] < left[b] })
	return left, missing
}

// restartCleans reopens the table (startup removes parts no snapshot lists) and reports what is still left.
func restartCleans(dir string, fileSystem fs.FileSystem, keep map[uint64]bool) []uint64 {
	t2, _ := initTSTable(fileSystem, dir, common.Position{}, logger.GetLogger("verif"), option{flushTimeout: 0, mergePolicy: newDefaultMergePolicyForTesting(), protector: protector.Nop{}}, nil)
	t2.Close()
	left, _ := settledDisk(dir, keep)
	return left
}

func c05Step(s *verifh.Sink, base string, fileSystem fs.FileSystem, uid *int64) {
	segs := []int64{0, 1_000_000_000, 2_000_000_000, 3_000_000_000}
	for c := 0; c < verifh.Pick(150, 4000); c++ {
		r := verifh.Rand("c05step", c)
		dir := freshDir(base)
		st := openStepTable(dir, fileSystem)
		st.tst.option.flushTimeout = time.Millisecond // the pile-up path of the flusher is in force
		var written []vrow
		var hist []string
		multi := false
		bad := func(kind string, d map[string]any) {
			d["case"], d["history"] = c, hist
			s.Violation("c05:measure:step:"+kind, d)
		}
		judge := func(op string) bool {
			snp := st.tst.currentSnapshot()
			if snp == nil {
				if len(written) > 0 {
					bad("snapshot-vanished", map[string]any{"after": op})
					return false
				}
				return true
			}
			f := factsOf(snp)
			snp.decRef()
			if f.dupIDs {
				bad("part-listed-twice", map[string]any{"after": op, "snapshot": f.sig})
				return false
			}
			if f.rows != uint64(len(written)) {
				kind := "snapshot-holds-merged-part-and-its-inputs"
				if f.rows < uint64(len(written)) {
					kind = "snapshot-lost-parts"
				}
				bad(kind, map[string]any{"after": op, "rows_in_snapshot_parts": f.rows, "rows_written": len(written), "snapshot": f.sig})
				return false
			}
			disk := diskParts(dir)
			for _, id := range f.fileIDs {
				if !disk[id] {
					bad("file-part-of-snapshot-missing-on-disk", map[string]any{"after": op, "part": id})
					return false
				}
			}
			rows, err := st.scan(scanOpts{orderBy: "ts-asc", sids: []common.SeriesID{1, 2, 3}})
			if err != nil {
				bad("scan-failed", map[string]any{"after": op, "err": err.Error()})
				return false
			}
			if d := compare(rows, written, scanOpts{}); d != "" {
				bad("scan-differs-from-model", map[string]any{"after": op, "discrepancy": d, "snapshot": f.sig})
				return false
			}
			return true
		}
		ok := true
		cycles := 1 + r.Intn(4)
		for cy := 0; cy < cycles && ok; cy++ {
			// a flush window: memory parts of one to three segments in some arrival order
			nw := 2 + r.Intn(7)
			kinds := 1 + r.Intn(3)
			perm := r.Perm(3)
			runs := map[int64]int{}
			for w := 0; w < nw; w++ {
				seg := segs[1+perm[r.Intn(kinds)]]
				if r.Intn(12) == 0 {
					seg = 0
				}
				rows := uniqueRows(r, len(hist), 1+r.Intn(12), uid)
				st.tst.mustAddDataPointsWithSegmentID(toDataPoints(rows), seg, nil)
				written = append(written, rows...)
				runs[seg]++
				hist = append(hist, fmt.Sprintf("write(seg=%d,%d rows)", seg/1_000_000_000, len(rows)))
			}
			if len(runs) >= 2 {
				multi = true
			}
			if ok = judge("writes"); !ok {
				break
			}
			snp := st.tst.currentSnapshot()
			merged, err := st.tst.mergeMemParts(snp, st.mergeCh)
			snp.decRef()
			hist = append(hist, fmt.Sprintf("mergeMemParts=%v", merged))
			if err != nil {
				bad("merge-mem-parts-error", map[string]any{"err": err.Error()})
				ok = false
				break
			}
			s.Count("c05.measure.step.mem_merges", 1)
			if ok = judge("mergeMemParts"); !ok {
				break
			}
			if r.Intn(3) > 0 {
				st.flush()
				hist = append(hist, "flush")
				if ok = judge("flush"); !ok {
					break
				}
			}
			if ids, file := st.partIDs(); r.Intn(2) == 0 {
				var fids []uint64
				for _, id := range ids {
					if file[id] {
						fids = append(fids, id)
					}
				}
				if len(fids) >= 2 {
					r.Shuffle(len(fids), func(a, b int) { fids[a], fids[b] = fids[b], fids[a] })
					pick := fids[:2+r.Intn(len(fids)-1)]
					if _, err := st.merge(pick); err != nil {
						bad("file-merge-error", map[string]any{"err": err.Error()})
						ok = false
						break
					}
					hist = append(hist, fmt.Sprintf("merge(%d file parts)", len(pick)))
					if ok = judge("merge"); !ok {
						break
					}
				}
			}
		}
		if ok {
			st.flush()
			judge("final flush")
		}
		snp := st.tst.currentSnapshot()
		var keep map[uint64]bool
		if snp != nil {
			keep = map[uint64]bool{}
			for _, id := range factsOf(snp).fileIDs {
				keep[id] = true
			}
			snp.decRef()
		}
		st.close()
		if ok && keep != nil {
			// after close nothing reads any more: replaced parts must be gone, the snapshot's parts present
			left, missing := settledDisk(dir, keep)
			if len(missing) > 0 {
				bad("live-part-deleted", map[string]any{"parts": missing})
			}
			if len(left) > 0 { // no time bound in the property: a restart must clean them up
				s.Count("c05.measure.step.replaced_parts_still_on_disk_2s_after_close", 1)
				if left = restartCleans(dir, fileSystem, keep); len(left) > 0 {
					bad("replaced-part-survives-restart", map[string]any{"parts": left})
				}
			}
		}
		s.Case(fmt.Sprint("step/", hist), multi)
		if c < 2 {
			s.Sample(map[string]any{"mode": "step", "history": hist})
		}
		os.RemoveAll(dir)
	}
}

func c05Live(s *verifh.Sink, base string, fileSystem fs.FileSystem, uid *int64) {
	segs := []int64{1_000_000_000, 2_000_000_000, 3_000_000_000}
	for c := 0; c < verifh.Pick(4, 60); c++ {
		r := verifh.Rand("c05live", c)
		dir := freshDir(base)
		tst, err := newTSTable(fileSystem, dir, common.Position{}, logger.GetLogger("verif"), timestamp.TimeRange{},
			option{flushTimeout: time.Duration(1+r.Intn(4)) * time.Millisecond, mergePolicy: newMergePolicy(2+r.Intn(3), 1, 1<<40), protector: protector.Nop{}}, nil)
		if err != nil {
			s.Violation("c05:measure:live:open", map[string]any{"err": err.Error()})
			continue
		}
		sids := []common.SeriesID{1, 2, 3}
		var mu sync.Mutex
		var acked []vrow               // rows of acknowledged batches
		batchRows := map[int][]int64{} // batch -> uids (registered BEFORE the write starts)
		var stop atomic.Bool
		var scans, during, pinnedStates atomic.Int64
		var firstBad atomic.Value
		fail := func(kind string, d map[string]any) {
			d["case"] = c
			firstBad.CompareAndSwap(nil, [2]any{kind, d})
		}
		states := sync.Map{}
		var wg sync.WaitGroup
		for g := 0; g < 4; g++ {
			wg.Add(1)
			go func(g int) {
				defer wg.Done()
				rr := rand.New(rand.NewSource(int64(c*10 + g)))
				for !stop.Load() && firstBad.Load() == nil {
					mu.Lock()
					before := append([]vrow(nil), acked...)
					mu.Unlock()
					e0 := tst.currentEpoch()
					snp := tst.currentSnapshot()
					if snp == nil {
						continue
					}
					f := factsOf(snp)
					if _, loaded := states.LoadOrStore(f.sig, true); !loaded {
						pinnedStates.Add(1)
					}
					if rr.Intn(3) == 0 {
						time.Sleep(time.Duration(rr.Intn(3000)) * time.Microsecond) // hold the pin across maintenance
					}
					o := scanOpts{orderBy: []string{"ts-asc", "ts-desc", "series"}[rr.Intn(3)], sids: sids, snapshot: snp}
					rows, err := scanTable(tst, o)
					// the files of a pinned snapshot must still be there after the scan
					var missing []uint64
					disk := diskParts(dir)
					for _, id := range f.fileIDs {
						if !disk[id] {
							missing = append(missing, id)
						}
					}
					snp.decRef()
					scans.Add(1)
					if tst.currentEpoch() != e0 {
						during.Add(1)
					}
					mu.Lock()
					after := len(acked)
					inflight := map[int64]int{}
					for b, us := range batchRows {
						for _, u := range us {
							inflight[u] = b
						}
					}
					sizes := map[int]int{}
					for b, us := range batchRows {
						sizes[b] = len(us)
					}
					mu.Unlock()
					switch {
					case err != nil:
						fail("query-failed", map[string]any{"err": err.Error(), "snapshot": f.sig})
					case len(missing) > 0:
						fail("part-deleted-while-a-reader-pins-it", map[string]any{"parts": missing, "snapshot": f.sig})
					case f.dupIDs:
						fail("part-listed-twice", map[string]any{"snapshot": f.sig})
					case uint64(len(rows)) != f.rows:
						fail("rows-returned-differ-from-rows-in-pinned-parts", map[string]any{"returned": len(rows), "in_parts": f.rows, "snapshot": f.sig})
					default:
						if d := compareAtLeast(rows, before, o); d != "" {
							fail("acknowledged-data-missing-or-wrong", map[string]any{"discrepancy": d, "snapshot": f.sig})
							break
						}
						// batches are all-or-nothing
						seen := map[int]int{}
						for _, g := range rows {
							b, ok := inflight[g.uid]
							if !ok {
								fail("row-nobody-wrote", map[string]any{"uid": g.uid})
								break
							}
							seen[b]++
						}
						for b, n := range seen {
							if n != sizes[b] {
								fail("batch-partially-visible", map[string]any{"batch": b, "rows_visible": n, "rows_in_batch": sizes[b], "snapshot": f.sig})
								break
							}
						}
						_ = after
					}
				}
			}(g)
		}
		nBatches := 40 + r.Intn(60)
		var wwg sync.WaitGroup
		var bmu sync.Mutex
		next := 0
		for w := 0; w < 2; w++ {
			wwg.Add(1)
			go func(w int) {
				defer wwg.Done()
				wr := rand.New(rand.NewSource(int64(c*100 + w)))
				for {
					bmu.Lock()
					b := next
					next++
					var rows []vrow
					if b < nBatches {
						rows = uniqueRows(wr, b, 1+wr.Intn(40), uid)
					}
					bmu.Unlock()
					if b >= nBatches || firstBad.Load() != nil {
						return
					}
					us := make([]int64, len(rows))
					for i := range rows {
						us[i] = rows[i].uid
					}
					mu.Lock()
					batchRows[b] = us
					mu.Unlock()
					// bursts around segment boundaries: runs of one part in one segment followed by runs in another
					seg := segs[(b/(1+wr.Intn(3)))%3]
					tst.mustAddDataPointsWithSegmentID(toDataPoints(rows), seg, nil)
					mu.Lock()
					acked = append(acked, rows...)
					mu.Unlock()
					if wr.Intn(4) == 0 {
						time.Sleep(time.Duration(wr.Intn(2500)) * time.Microsecond)
					}
				}
			}(w)
		}
		wwg.Wait()
		stable, lastSig := 0, ""
		deadline := time.Now().Add(60 * time.Second)
		for stable < 20 && time.Now().Before(deadline) && firstBad.Load() == nil {
			snp := tst.currentSnapshot()
			f := factsOf(snp)
			snp.decRef()
			if f.mem == 0 && f.sig == lastSig {
				stable++
			} else {
				stable = 0
			}
			lastSig = f.sig
			time.Sleep(5 * time.Millisecond)
		}
		stop.Store(true)
		wg.Wait()
		if fb := firstBad.Load(); fb != nil {
			kd := fb.([2]any)
			s.Violation("c05:measure:live:"+kd[0].(string), kd[1].(map[string]any))
		} else {
			final, err := scanTable(tst, scanOpts{orderBy: "ts-asc", sids: sids})
			if err != nil {
				s.Violation("c05:measure:live:final-scan-failed", map[string]any{"case": c, "err": err.Error()})
			} else if d := compare(final, acked, scanOpts{}); d != "" {
				s.Violation("c05:measure:live:final-state-differs-from-acknowledged", map[string]any{"case": c, "discrepancy": d})
			}
			if stable < 20 {
				s.Inconclusive(fmt.Sprintf("measure live case %d did not reach quiescence within the watchdog", c))
			}
		}
		snp := tst.currentSnapshot()
		keep := map[uint64]bool{}
		if snp != nil {
			for _, id := range factsOf(snp).fileIDs {
				keep[id] = true
			}
			snp.decRef()
		}
		tst.Close()
		if mk, ok := manifestParts(fileSystem, dir); ok {
			keep = mk
		}
		if firstBad.Load() == nil && stable >= 20 {
			left, missing := settledDisk(dir, keep)
			if len(missing) > 0 {
				s.Violation("c05:measure:live:live-part-deleted", map[string]any{"case": c, "parts": missing})
			}
			if len(left) > 0 {
				s.Count("c05.measure.live.replaced_parts_still_on_disk_2s_after_close", 1)
				if left = restartCleans(dir, fileSystem, keep); len(left) > 0 {
					s.Violation("c05:measure:live:replaced-part-survives-restart", map[string]any{"case": c, "parts": left})
				}
			}
		}
		s.Count("c05.measure.live.scans", scans.Load())
		s.Count("c05.measure.live.scans_overlapping_a_snapshot_change", during.Load())
		s.Count("c05.measure.live.distinct_snapshot_states_pinned", pinnedStates.Load())
		s.Case(fmt.Sprintf("live/%d/%d", c, pinnedStates.Load()), during.Load() > 0 && pinnedStates.Load() > 3)
		if c == 0 {
			s.Sample(map[string]any{"mode": "live", "batches": nBatches, "scans": scans.Load(), "distinct_snapshot_states_pinned": pinnedStates.Load()})
		}
		os.RemoveAll(dir)
	}
}

func TestVerifC05(t *testing.T) {
	s := verifh.S()
	base := filepath.Join(verifh.Scratch(), "c05")
	fileSystem := fs.NewLocalFileSystem()
	var uid int64
	c05Step(s, base, fileSystem, &uid)
	c05Live(s, base, fileSystem, &uid)
	os.RemoveAll(base)
	s.Done()
}
