package measure

// C03 (measure) — flush and merge never change what queries return; merging any subset of parts yields the
// version-resolved union of its inputs, also when tag types conflict between parts.

import (
	"fmt"
	"math/rand"
	"os"
	"path/filepath"
	"sync"
	"sync/atomic"
	"testing"
	"time"

	"github.com/apache/skywalking-banyandb/api/common"
	"github.com/apache/skywalking-banyandb/banyand/protector"
	"github.com/apache/skywalking-banyandb/pkg/fs"
	"github.com/apache/skywalking-banyandb/pkg/logger"
	pbv1 "github.com/apache/skywalking-banyandb/pkg/pb/v1"
	"github.com/apache/skywalking-banyandb/pkg/timestamp"
	"github.com/apache/skywalking-banyandb/pkg/verifh"
)

func freshDir(base string) string {
	dirSeq++
	d := filepath.Join(base, fmt.Sprint("t", dirSeq))
	os.MkdirAll(d, 0o755)
	return d
}

// checkAll scans in several shapes and compares each with the reference; returns the first discrepancy.
func checkAll(st *stepTable, written []vrow, sids []common.SeriesID, r *rand.Rand, tsDomain int) string {
	for _, xt := range []pbv1.ValueType{pbv1.ValueTypeInt64, pbv1.ValueTypeStr} {
		o := scanOpts{orderBy: []string{"ts-asc", "ts-desc", "series"}[r.Intn(3)], sids: sids, xType: xt}
		rows, err := st.scan(o)
		if err != nil {
			return "scan failed: " + err.Error()
		}
		if d := compare(rows, written, o); d != "" {
			return fmt.Sprintf("[order=%s x=%v] %s", o.orderBy, xt, d)
		}
	}
	// a time window whose edges fall on stored timestamps (part/block min-max pruning)
	lo := int64(1 + r.Intn(tsDomain))
	hi := lo + int64(r.Intn(tsDomain))
	o := scanOpts{orderBy: "ts-asc", sids: sids, minTS: lo, maxTS: hi}
	rows, err := st.scan(o)
	if err != nil {
		return "window scan failed: " + err.Error()
	}
	if d := compare(rows, written, o); d != "" {
		return fmt.Sprintf("[window %d..%d] %s", lo, hi, d)
	}
	return ""
}

func TestVerifC03(t *testing.T) {
	s := verifh.S()
	fileSystem := fs.NewLocalFileSystem()
	base := filepath.Join(verifh.Scratch(), "c03")
	var uid int64

	// ---- (a) stepped histories: the harness is the scheduler --------------------------------------------
	nHist := verifh.Pick(40, 900)
	only := -1
	if v := os.Getenv("VERIF_C03_ONLY"); v != "" { // replay of a single stepped history
		fmt.Sscan(v, &only)
	}
	for h := 0; h < nHist; h++ {
		if only >= 0 && h != only {
			continue
		}
		r := verifh.Rand("c03step", h)
		dir := freshDir(base)
		st := openStepTable(dir, fileSystem)
		nSeries, tsDomain := 1+r.Intn(4), 2+r.Intn(60)
		sids := []common.SeriesID{1, 2, 3, 4}
		var written []vrow
		var trace []string
		maintenance := 0
		conflict := r.Intn(3) == 0
		steps := 6 + r.Intn(14)
		bad := ""
		for step := 0; step < steps && bad == ""; step++ {
			ids, file := st.partIDs()
			var fileIDs, memIDs []uint64
			for _, id := range ids {
				if file[id] {
					fileIDs = append(fileIDs, id)
				} else {
					memIDs = append(memIDs, id)
				}
			}
			op := r.Intn(10)
			switch {
			case op < 4 || len(ids) == 0:
				rows := genRows(r, step, 1+r.Intn(120), nSeries, tsDomain, &uid, []int64{1, 2, 2, 3, 7})
				if conflict {
					kind := 1 + r.Intn(2)
					for i := range rows {
						rows[i].xKind, rows[i].xInt = kind, int64(r.Intn(50))
					}
				}
				st.write(rows)
				written = append(written, rows...)
				trace = append(trace, fmt.Sprintf("write(%d rows)", len(rows)))
			case op < 6 && len(memIDs) > 0:
				st.flush()
				maintenance++
				trace = append(trace, "flush")
				s.Count("c03.measure.flushes", 1)
			case len(fileIDs) >= 2:
				// merge a seeded subset of the file parts
				r.Shuffle(len(fileIDs), func(i, j int) { fileIDs[i], fileIDs[j] = fileIDs[j], fileIDs[i] })
				k := 2 + r.Intn(len(fileIDs)-1)
				if _, err := st.merge(fileIDs[:k]); err != nil {
					bad = "merge failed: " + err.Error()
					break
				}
				maintenance++
				trace = append(trace, fmt.Sprintf("merge(%v)", fileIDs[:k]))
				s.Count(fmt.Sprintf("c03.measure.merge.fanin%d", min(k, 6)), 1)
			case len(memIDs) >= 2:
				if _, err := st.merge(memIDs); err != nil { // memory parts merged straight into a file part
					bad = "mem merge failed: " + err.Error()
					break
				}
				maintenance++
				trace = append(trace, fmt.Sprintf("merge-mem(%v)", memIDs))
				s.Count("c03.measure.merge.memparts", 1)
			default:
				continue
			}
			if bad == "" {
				bad = checkAll(st, written, sids, r, tsDomain)
			}
			if only >= 0 {
				if snp := st.tst.currentSnapshot(); snp != nil {
					for _, pw := range snp.parts {
						fmt.Printf("REPLAY step %d %v: part %d mem=%v tagType=%v\n", step, trace[len(trace)-1:], pw.ID(), pw.mp != nil, pw.p.tagType)
					}
					snp.decRef()
				}
			}
		}
		s.Case(fmt.Sprintf("step/%d/%v", h, trace), maintenance > 0)
		if conflict {
			s.Count("c03.measure.histories_with_type_conflict", 1)
		}
		if h < 2 {
			s.Sample(map[string]any{"engine": "measure", "history": trace, "rows": len(written)})
		}
		if bad != "" {
			var dump []string
			if snp := st.tst.currentSnapshot(); snp != nil {
				for _, pw := range snp.parts {
					if pw.mp == nil {
						dump = append(dump, fmt.Sprintf("part %d tagType=%v", pw.ID(), pw.p.tagType))
					}
				}
				snp.decRef()
			}
			var xs []string
			for _, w := range written {
				if w.sid == 1 && w.ts == 7 {
					xs = append(xs, fmt.Sprintf("batch %d ver %d uid %d xKind %d xInt %d", w.batch, w.version, w.uid, w.xKind, w.xInt))
				}
			}
			s.Violation(fmt.Sprintf("c03:measure:stepped:case-%d", h), map[string]any{"history": trace, "discrepancy": bad, "rows": len(written), "conflict": conflict, "parts": dump, "writes_of_sid1_ts7": xs})
		}
		st.close()
		os.RemoveAll(dir)
	}

	// ---- (b) every subset of a 5-part layout, merged alone, must equal the resolved union ----------------
	for layoutNo := 0; layoutNo < verifh.Pick(1, 12); layoutNo++ {
		r := verifh.Rand("c03subset", layoutNo)
		var batches [][]vrow
		for b := 0; b < 5; b++ {
			rows := genRows(r, b, 1+r.Intn(60), 2, 12, &uid, []int64{1, 2, 3, 3})
			kind := 1 + b%2 // alternate the type of tag x between parts
			for i := range rows {
				rows[i].xKind, rows[i].xInt = kind, int64(r.Intn(9))
			}
			batches = append(batches, rows)
		}
		for mask := 3; mask < 32; mask++ {
			if mask&(mask-1) == 0 {
				continue
			}
			dir := freshDir(base)
			st := openStepTable(dir, fileSystem)
			var all []vrow
			var ids []uint64
			for _, b := range batches {
				st.write(b)
				st.flush()
				all = append(all, b...)
			}
			pids, _ := st.partIDs()
			for i, id := range pids {
				if mask&(1<<i) != 0 {
					ids = append(ids, id)
				}
			}
			_, err := st.merge(ids)
			bad := ""
			if err != nil {
				bad = "merge failed: " + err.Error()
			} else {
				bad = checkAll(st, all, []common.SeriesID{1, 2}, r, 12)
			}
			s.Case(fmt.Sprintf("subset/%d/%05b", layoutNo, mask), true)
			s.Count("c03.measure.subsets", 1)
			if bad != "" {
				s.Violation(fmt.Sprintf("c03:measure:subset:%d:%05b", layoutNo, mask), map[string]any{"subset_mask": fmt.Sprintf("%05b", mask), "discrepancy": bad})
			}
			st.close()
			os.RemoveAll(dir)
		}
	}

	// ---- (c) block boundaries: 8191/8192/8193 rows of one series, split over two parts, then merged -----
	for _, n := range []int{8191, 8192, 8193, 16385}[:verifh.Pick(3, 4)] {
		r := verifh.Rand("c03edge", n)
		dir := freshDir(base)
		st := openStepTable(dir, fileSystem)
		var a, b []vrow
		for i := 0; i < n; i++ {
			uid++
			row := vrow{sid: 1, ts: int64(i + 1), version: 1, uid: uid, s: "e", iv: int64(i), fv: float64(i) / 8}
			if i%2 == 0 {
				a = append(a, row)
			} else {
				b = append(b, row)
			}
		}
		// a third of the timestamps are rewritten with a higher version in the second part
		for i := 0; i < n; i += 3 {
			uid++
			b = append(b, vrow{sid: 1, ts: int64(i + 1), version: 2, uid: uid, s: "e2", iv: -int64(i), fv: 0.5})
		}
		all := append(append([]vrow(nil), a...), b...)
		st.write(a)
		st.flush()
		bad := checkAll(st, a, []common.SeriesID{1}, r, n)
		st.write(b)
		if bad == "" {
			bad = checkAll(st, all, []common.SeriesID{1}, r, n)
		}
		st.flush()
		if bad == "" {
			bad = checkAll(st, all, []common.SeriesID{1}, r, n)
		}
		ids, _ := st.partIDs()
		if _, err := st.merge(ids); err != nil {
			bad = "merge failed: " + err.Error()
		}
		if bad == "" {
			bad = checkAll(st, all, []common.SeriesID{1}, r, n)
		}
		s.Case(fmt.Sprintf("edge/%d", n), true)
		s.Count("c03.measure.block_edge_cases", 1)
		if bad != "" {
			s.Violation(fmt.Sprintf("c03:measure:block-edge:%d", n), map[string]any{"rows_in_series": n, "discrepancy": bad})
		}
		st.close()
		os.RemoveAll(dir)
	}

	// ---- (d) high-cardinality columns: more than 256 distinct string values per block (plain encoding instead of
	//      a dictionary), 3-6 parts of the same series merged in one go, a few series, several rounds
	for c := 0; c < verifh.Pick(6, 60); c++ {
		r := verifh.Rand("c03hc", c)
		dir := freshDir(base)
		st := openStepTable(dir, fileSystem)
		var all []vrow
		bad := ""
		nSeries := 1 + r.Intn(3)
		sids := []common.SeriesID{1, 2, 3}[:nSeries]
		ts := int64(0)
		for round := 0; round < 1+r.Intn(3) && bad == ""; round++ {
			fanIn := 3 + r.Intn(4)
			for p := 0; p < fanIn; p++ {
				var rows []vrow
				for _, sid := range sids {
					for i := 0; i < 260+r.Intn(200); i++ {
						uid++
						ts++
						rows = append(rows, vrow{sid: sid, ts: ts, version: 1, uid: uid, s: fmt.Sprintf("value-%d-%d", uid, r.Intn(1000)), iv: uid, fv: float64(uid) / 8})
					}
				}
				st.write(rows)
				st.flush()
				all = append(all, rows...)
			}
			ids, file := st.partIDs()
			var fids []uint64
			for _, id := range ids {
				if file[id] {
					fids = append(fids, id)
				}
			}
			if r.Intn(2) == 0 && len(fids) > 3 { // leave one part out now and then
				fids = fids[1:]
			}
			if _, err := st.merge(fids); err != nil {
				bad = "merge failed: " + err.Error()
				break
			}
			bad = checkAll(st, all, sids, r, int(ts))
		}
		s.Case(fmt.Sprintf("highcard/%d/%d", c, len(all)), true)
		s.Count("c03.measure.high_cardinality_cases", 1)
		if bad != "" {
			s.Violation("c03:measure:high-cardinality-merge", map[string]any{"case": c, "rows": len(all), "series": nSeries, "discrepancy": bad})
		}
		st.close()
		os.RemoveAll(dir)
	}

	// ---- (e) many series: a part whose block metadata fills more than one primary block (128 KiB of metadata,
	//      about 1900 blocks). Timestamps grow with the series id, so the first and the last primary block span
	//      different times; windows over the early, middle and late range before and after flush and merge.
	for c := 0; c < verifh.Pick(2, 12); c++ {
		r := verifh.Rand("c03wide", c)
		dir := freshDir(base)
		st := openStepTable(dir, fileSystem)
		nSeries := 4200 + r.Intn(1500)
		sids := make([]common.SeriesID, nSeries)
		for i := range sids {
			sids[i] = common.SeriesID(i + 1)
		}
		var all []vrow
		bad := ""
		windows := func(step string) {
			for _, w := range [][2]int64{{1, 100}, {int64(nSeries / 2), int64(nSeries/2 + 100)}, {int64(nSeries - 50), int64(3 * nSeries)}, {int64(1 + r.Intn(nSeries)), int64(nSeries + r.Intn(nSeries))}} {
				if bad != "" {
					return
				}
				o := scanOpts{orderBy: "ts-asc", sids: sids, minTS: w[0], maxTS: w[1]}
				rows, err := st.scan(o)
				if err != nil {
					bad = step + ": window scan failed: " + err.Error()
				} else if d := compare(rows, all, o); d != "" {
					bad = fmt.Sprintf("%s: [window %d..%d] %s", step, w[0], w[1], d)
				}
			}
		}
		for p := 0; p < 2+r.Intn(2) && bad == ""; p++ {
			var rows []vrow
			for i, sid := range sids {
				uid++
				rows = append(rows, vrow{sid: sid, ts: int64(i+1) + int64(p)*int64(nSeries), version: 1, uid: uid, s: "v", iv: uid, fv: 1})
			}
			st.write(rows)
			all = append(all, rows...)
			windows("memory part")
			st.flush()
			windows("after flush")
		}
		if bad == "" {
			ids, file := st.partIDs()
			var fids []uint64
			for _, id := range ids {
				if file[id] {
					fids = append(fids, id)
				}
			}
			if _, err := st.merge(fids); err != nil {
				bad = "merge failed: " + err.Error()
			} else {
				windows("after merge")
			}
		}
		s.Case(fmt.Sprintf("wide/%d/%d", c, nSeries), true)
		s.Count("c03.measure.many_series_cases", 1)
		if bad != "" {
			s.Violation("c03:measure:many-series-part", map[string]any{"case": c, "series": nSeries, "discrepancy": bad})
		}
		st.close()
		os.RemoveAll(dir)
	}

	liveMeasure(s, base, fileSystem, &uid)
	os.RemoveAll(base)
	s.Done()
}

// liveMeasure: real background loops; a fixed acknowledged set; readers scan until maintenance is quiescent.
func liveMeasure(s *verifh.Sink, base string, fileSystem fs.FileSystem, uid *int64) {
	for c := 0; c < verifh.Pick(3, 40); c++ {
		r := verifh.Rand("c03live", c)
		dir := freshDir(base)
		tst, err := newTSTable(fileSystem, dir, common.Position{}, logger.GetLogger("verif"), timestamp.TimeRange{},
			option{flushTimeout: 0, mergePolicy: newMergePolicy(2+r.Intn(3), 1, 1<<40), protector: protector.Nop{}}, nil)
		if err != nil {
			s.Violation("c03:measure:live:open", map[string]any{"err": err.Error()})
			continue
		}
		sids := []common.SeriesID{1, 2, 3}
		var written []vrow
		var mu sync.Mutex
		var stop atomic.Bool
		var samples, during atomic.Int64
		var firstBad atomic.Value
		var wg sync.WaitGroup
		epochAt := func() uint64 { return tst.currentEpoch() }
		for g := 0; g < 3; g++ {
			wg.Add(1)
			go func(g int) {
				defer wg.Done()
				rr := rand.New(rand.NewSource(int64(c*10 + g)))
				for !stop.Load() {
					mu.Lock()
					snap := append([]vrow(nil), written...)
					mu.Unlock()
					e0 := epochAt()
					o := scanOpts{orderBy: []string{"ts-asc", "ts-desc", "series"}[rr.Intn(3)], sids: sids}
					// the acknowledged set may grow while we scan: pin what the scan sees
					snapshot := tst.currentSnapshot() // pinned AFTER the copy: it holds at least everything acknowledged before
					if snapshot == nil {
						continue
					}
					o.snapshot = snapshot
					rows, err := scanTable(tst, o)
					snapshot.decRef()
					samples.Add(1)
					if epochAt() != e0 {
						during.Add(1)
					}
					if err != nil {
						firstBad.CompareAndSwap(nil, "scan failed: "+err.Error())
						return
					}
					// rows acknowledged before the snapshot was pinned must be there; later ones may or may not
					if d := compareAtLeast(rows, snap, o); d != "" {
						firstBad.CompareAndSwap(nil, d)
						return
					}
				}
			}(g)
		}
		nBatches := 20 + r.Intn(30)
		for b := 0; b < nBatches; b++ {
			rows := genRows(r, b, 1+r.Intn(80), 3, 30, uid, []int64{1, 2, 2, 5})
			tst.mustAddDataPoints(toDataPoints(rows))
			mu.Lock()
			written = append(written, rows...)
			mu.Unlock()
		}
		// quiescence: no memory part left and the part list unchanged for 20 consecutive looks
		stable, lastSig := 0, ""
		deadline := time.Now().Add(60 * time.Second)
		for stable < 20 && time.Now().Before(deadline) {
			snp := tst.currentSnapshot()
			sig, mem := "", false
			for _, pw := range snp.parts {
				sig += fmt.Sprint(pw.ID(), ",")
				mem = mem || pw.mp != nil
			}
			snp.decRef()
			if !mem && sig == lastSig {
				stable++
			} else {
				stable = 0
			}
			lastSig = sig
			time.Sleep(5 * time.Millisecond)
		}
		stop.Store(true)
		wg.Wait()
		final, err := scanTable(tst, scanOpts{orderBy: "ts-asc", sids: sids})
		bad, _ := firstBad.Load().(string)
		if bad == "" && err != nil {
			bad = "final scan failed: " + err.Error()
		}
		if bad == "" {
			bad = compare(final, written, scanOpts{})
		}
		s.Case(fmt.Sprintf("live/%d", c), during.Load() > 0)
		s.Count("c03.measure.live.scans", samples.Load())
		s.Count("c03.measure.live.scans_overlapping_a_snapshot_change", during.Load())
		if stable < 20 {
			s.Inconclusive(fmt.Sprintf("measure live case %d did not reach quiescence within the watchdog", c))
		}
		if bad != "" {
			s.Violation(fmt.Sprintf("c03:measure:live:case-%d", c), map[string]any{"discrepancy": bad, "batches": nBatches})
		}
		tst.Close()
		os.RemoveAll(dir)
	}
}

// compareAtLeast: every key of `acked` must be present with a version >= the greatest acked one; anything
// returned must have been written (checked by uid range elsewhere); one row per key.
func compareAtLeast(rows []got, acked []vrow, o scanOpts) string {
	ref := resolve(acked)
	seen := map[vkey]got{}
	for _, g := range rows {
		k := vkey{g.sid, g.ts}
		if _, dup := seen[k]; dup {
			return fmt.Sprintf("two rows returned for series %d ts %d", g.sid, g.ts)
		}
		seen[k] = g
	}
	for k, want := range ref {
		g, ok := seen[k]
		if !ok {
			return fmt.Sprintf("acknowledged row missing during maintenance: series %d ts %d", k.sid, k.ts)
		}
		if g.version < want.version {
			return fmt.Sprintf("series %d ts %d: version %d returned but %d was acknowledged before the query", k.sid, k.ts, g.version, want.version)
		}
		if g.version == want.version {
			if w, ok := want.winners[g.uid]; ok && (w.s != g.s || w.iv != g.iv) {
				return fmt.Sprintf("series %d ts %d uid %d: values differ", k.sid, k.ts, g.uid)
			}
		}
	}
	return orderViolation(rows, o.orderBy)
}
