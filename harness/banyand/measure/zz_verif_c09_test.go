package measure

// C09 (measure engine) — a time-window scan in time order returns every row inside the window, in order, also
// when blocks are selected by their metadata but hold no row inside the window. Series are sparse on purpose:
// most have points only before and after the queried window (their blocks overlap it without contributing),
// a few have points inside it; parts straddle the window; the scan runs in ascending, descending and
// per-series order through the engine's own block search and result merge.

import (
	"fmt"
	"os"
	"path/filepath"
	"testing"

	"github.com/apache/skywalking-banyandb/api/common"
	"github.com/apache/skywalking-banyandb/pkg/fs"
	"github.com/apache/skywalking-banyandb/pkg/verifh"
)

func TestVerifC09Measure(t *testing.T) {
	s := verifh.S()
	base := filepath.Join(verifh.Scratch(), "c09m")
	fileSystem := fs.NewLocalFileSystem()
	var uid int64
	for c := 0; c < verifh.Pick(120, 3000); c++ {
		r := verifh.Rand("c09m", c)
		dir := freshDir(base)
		st := openStepTable(dir, fileSystem)
		nSeries := 3 + r.Intn(6)
		var sids []common.SeriesID
		var all []vrow
		lo, hi := int64(400+r.Intn(100)), int64(600+r.Intn(100))
		nParts := 1 + r.Intn(4)
		sparse := 0
		for p := 0; p < nParts; p++ {
			var rows []vrow
			for si := 0; si < nSeries; si++ {
				sid := common.SeriesID(si + 1)
				if p == 0 {
					sids = append(sids, sid)
				}
				inside := (si+c)%3 == 0 // a third of the series have points inside the window
				mk := func(ts int64) {
					uid++
					rows = append(rows, vrow{sid: sid, ts: ts, version: 1, uid: uid, s: fmt.Sprint("s", uid%5), iv: uid, fv: float64(uid) / 4})
				}
				// points on both sides of the window in every part: the block's [min,max] covers the window
				for k := 0; k <= r.Intn(3); k++ {
					mk(int64(1 + p*40 + k*7 + r.Intn(5)))
					mk(int64(900 + p*20 + k*5 + r.Intn(4)))
				}
				if inside && r.Intn(3) > 0 {
					for k := 0; k <= r.Intn(4); k++ {
						mk(lo + int64(r.Intn(int(hi-lo)+1)))
					}
				} else if !inside {
					sparse++
				}
			}
			// the same (series, ts) must not repeat inside one batch with another value: de-duplicate by key
			seen := map[vkey]bool{}
			var uniq []vrow
			for _, row := range rows {
				k := vkey{row.sid, row.ts}
				if !seen[k] {
					seen[k] = true
					uniq = append(uniq, row)
				}
			}
			for i := range uniq {
				uniq[i].version = int64(p + 1) // a later part wins a collision across parts
			}
			st.write(uniq)
			all = append(all, uniq...)
			if r.Intn(3) > 0 {
				st.flush()
			}
		}
		bad := ""
		for _, ord := range []string{"ts-asc", "ts-desc", "series"} {
			for _, w := range [][2]int64{{lo, hi}, {lo, lo}, {1, 399}, {hi + 1, 2000}, {lo - 50, hi + 50}} {
				o := scanOpts{orderBy: ord, sids: sids, minTS: w[0], maxTS: w[1]}
				rows, err := st.scan(o)
				if err != nil {
					bad = fmt.Sprintf("scan %s window [%d,%d] failed: %v", ord, w[0], w[1], err)
					break
				}
				if d := compare(rows, all, o); d != "" {
					bad = fmt.Sprintf("scan %s window [%d,%d]: %s", ord, w[0], w[1], d)
					break
				}
				if d := orderViolation(rows, ord); d != "" {
					bad = fmt.Sprintf("scan %s window [%d,%d]: %s", ord, w[0], w[1], d)
					break
				}
				s.Count("c09.measure.window_scans", 1)
			}
			if bad != "" {
				break
			}
		}
		s.Case(fmt.Sprintf("c09m/%d/%d/%d/%d", c, nSeries, nParts, sparse), sparse >= 2)
		if bad != "" {
			s.Violation("c09:measure:window-scan-differs-from-model", map[string]any{"case": c, "series": nSeries, "parts": nParts, "series_without_rows_in_the_window": sparse, "discrepancy": bad})
		}
		if c < 2 {
			s.Sample(map[string]any{"series": nSeries, "parts": nParts, "window": []int64{lo, hi}, "rows": len(all)})
		}
		st.close()
		os.RemoveAll(dir)
	}
	os.RemoveAll(base)
	s.Done()
}
