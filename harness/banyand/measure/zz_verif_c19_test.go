package measure

// C19 — a file snapshot is a consistent, openable point-in-time copy (real measure tables in a real TSDB).
//
// A TSDB (3 day segments x 2 shards, real measure tsTables with all their loops) receives numbered batches
// with unique keys per table while TakeFileSnapshot is called at seeded moments. Each snapshot directory is
// then judged offline:
//   - every shard directory has a manifest; every part the manifest lists is present and complete
//     (metadata parses, every file the source part has is there with the same size);
//   - the directory opens as a TSDB, and per table the rows are exactly batches 0..k-1 of that table with
//     durableBeforeCall <= k <= acknowledgedAfterCall (+1 for the batch in flight): one state that existed
//     during the call, never a mixture;
//   - the source database is undisturbed (same rows afterwards).

import (
	"context"
	"encoding/json"
	"fmt"
	"math/rand"
	"os"
	"path/filepath"
	"sort"
	"strings"
	"sync"
	"sync/atomic"
	"testing"
	"time"

	"github.com/apache/skywalking-banyandb/api/common"
	"github.com/apache/skywalking-banyandb/banyand/internal/storage"
	"github.com/apache/skywalking-banyandb/banyand/protector"
	"github.com/apache/skywalking-banyandb/pkg/timestamp"
	"github.com/apache/skywalking-banyandb/pkg/verifh"
)

const c19Days, c19Shards = 3, 2

var c19Base = time.Date(2024, 5, 10, 0, 0, 0, 0, time.UTC)

func c19Open(dir string, flushMs, maxParts int) (storage.TSDB[*tsTable, option], error) {
	clock := timestamp.NewMockClock()
	clock.Set(c19Base.Add(c19Days*24*time.Hour - time.Hour))
	ctx := timestamp.SetClock(context.Background(), clock)
	ctx = common.SetPosition(ctx, func(p common.Position) common.Position {
		p.Database = "verif"
		return p
	})
	return storage.OpenTSDB(ctx, storage.TSDBOpts[*tsTable, option]{
		Location: dir, ShardNum: c19Shards, TSTableCreator: newTSTable,
		SegmentInterval: storage.IntervalRule{Unit: storage.DAY, Num: 1}, TTL: storage.IntervalRule{Unit: storage.DAY, Num: 3650},
		Option:           option{flushTimeout: time.Duration(flushMs) * time.Millisecond, mergePolicy: newMergePolicy(maxParts, 1, 1<<40), protector: protector.Nop{}},
		DisableRetention: true, DisableRotation: true, SeriesIndexFlushTimeoutSeconds: 10,
	}, nil, "verif")
}

// c19Rows: batch b of table t (t = day*shards+shard); keys are unique across everything.
func c19Rows(seed int64, t, b int) []vrow {
	r := rand.New(rand.NewSource(seed*7919 + int64(t)*100003 + int64(b)))
	n := 1 + r.Intn(25)
	rows := make([]vrow, n)
	day := t / c19Shards
	for i := range rows {
		u := int64(t)*10_000_000 + int64(b)*100 + int64(i) + 1
		rows[i] = vrow{sid: common.SeriesID(1 + u%3), ts: c19Base.Add(time.Duration(day)*24*time.Hour).UnixNano() + u, version: 1, uid: u, batch: b, s: fmt.Sprint("s", u%5), iv: u * 3, fv: float64(u) / 4}
	}
	return rows
}

func c19Table(db storage.TSDB[*tsTable, option], t int) (*tsTable, func(), error) {
	seg, err := db.CreateSegmentIfNotExist(time.Unix(0, c19Base.Add(time.Duration(t/c19Shards)*24*time.Hour+time.Minute).UnixNano()))
	if err != nil {
		return nil, nil, err
	}
	tab, err := seg.CreateTSTableIfNotExist(common.ShardID(t % c19Shards))
	if err != nil {
		seg.DecRef()
		return nil, nil, err
	}
	return tab, seg.DecRef, nil
}

// c19Scan returns, per table index, the uids found in db.
func c19Scan(db storage.TSDB[*tsTable, option]) (map[int][]int64, error) {
	out := map[int][]int64{}
	segs, err := db.SelectSegments(timestamp.NewInclusiveTimeRange(c19Base.Add(-time.Hour), c19Base.Add(c19Days*24*time.Hour)), true)
	if err != nil {
		return nil, err
	}
	defer func() {
		for _, s := range segs {
			s.DecRef()
		}
	}()
	for _, seg := range segs {
		tabs, _ := seg.Tables()
		for _, tab := range tabs {
			rows, err := scanTable(tab, scanOpts{orderBy: "ts-asc", sids: []common.SeriesID{1, 2, 3}})
			if err != nil {
				return nil, err
			}
			for _, g := range rows {
				t := int(g.uid / 10_000_000)
				out[t] = append(out[t], g.uid)
				if g.iv != g.uid*3 {
					return nil, fmt.Errorf("row uid %d carries iv %d", g.uid, g.iv)
				}
			}
		}
	}
	return out, nil
}

// prefixOf: the uids must be exactly batches 0..k-1 of table t; returns k or a description of the mixture.
func prefixOf(seed int64, t int, uids []int64, maxBatch int) (int, string) {
	got := map[int64]bool{}
	for _, u := range uids {
		if got[u] {
			return 0, fmt.Sprintf("uid %d returned twice", u)
		}
		got[u] = true
	}
	k, total := 0, 0
	for b := 0; b <= maxBatch; b++ {
		rows := c19Rows(seed, t, b)
		n := 0
		for _, row := range rows {
			if got[row.uid] {
				n++
			}
		}
		switch {
		case n == len(rows) && k == b:
			k = b + 1
			total += n
		case n == 0:
		case n == len(rows):
			return k, fmt.Sprintf("batch %d is present but batch %d is not", b, k)
		default:
			return k, fmt.Sprintf("batch %d is half there: %d of %d rows", b, n, len(rows))
		}
	}
	if total != len(got) {
		return k, fmt.Sprintf("%d rows returned but batches 0..%d hold %d", len(got), k-1, total)
	}
	return k, ""
}

type c19Shot struct {
	dir          string
	durableStart []int // per table: batches that were durably flushed before the call started
	ackedEnd     []int // per table: batches acknowledged when the call returned
	err          error
	created      bool
}

func TestVerifC19(t *testing.T) {
	s := verifh.S()
	base := filepath.Join(verifh.Scratch(), "c19")
	os.MkdirAll(base, 0o755)
	nTables := c19Days * c19Shards
	for c := 0; c < verifh.Pick(6, 80); c++ {
		r := verifh.Rand("c19", c)
		seed := int64(c) + 1000*verifh.Seed()
		dir := filepath.Join(base, fmt.Sprintf("db%04d", c))
		os.RemoveAll(dir)
		db, err := c19Open(dir, []int{0, 1, 3}[r.Intn(3)], 2+r.Intn(3))
		if err != nil {
			s.Violation("c19:open", map[string]any{"err": err.Error()})
			continue
		}
		acked := make([]atomic.Int64, nTables)
		tabs := make([]*tsTable, nTables)
		var rel []func()
		for ti := 0; ti < nTables; ti++ {
			tab, done, err := c19Table(db, ti)
			if err != nil {
				s.Violation("c19:create-table", map[string]any{"err": err.Error()})
				break
			}
			tabs[ti] = tab
			rel = append(rel, done)
		}
		// durable(t): batches of table t that a reader pinning now finds in file parts of a persisted snapshot
		durable := func(ti int) int {
			n := int(acked[ti].Load())
			snp := tabs[ti].currentSnapshot()
			if snp == nil {
				return 0
			}
			defer snp.decRef()
			for _, pw := range snp.parts {
				if pw.mp != nil {
					return -1 // unknown: some acknowledged batches are still in memory
				}
			}
			return n
		}
		nBatches := 40 + r.Intn(60)
		var wg sync.WaitGroup
		var lastDurable [c19Days * c19Shards]atomic.Int64
		var stopMon atomic.Bool
		go func() { // monitor: the greatest prefix ever seen fully in file parts
			for !stopMon.Load() {
				for ti := range tabs {
					if d := durable(ti); d > int(lastDurable[ti].Load()) {
						lastDurable[ti].Store(int64(d))
					}
				}
				time.Sleep(300 * time.Microsecond)
			}
		}()
		for w := 0; w < 2; w++ {
			wg.Add(1)
			go func(w int) {
				defer wg.Done()
				wr := rand.New(rand.NewSource(seed*10 + int64(w)))
				for b := 0; b < nBatches; b++ {
					for ti := w; ti < nTables; ti += 2 { // each table has exactly one writer: batches arrive in order
						tabs[ti].mustAddDataPoints(toDataPoints(c19Rows(seed, ti, b)))
						acked[ti].Store(int64(b + 1))
					}
					if wr.Intn(3) == 0 {
						time.Sleep(time.Duration(wr.Intn(1500)) * time.Microsecond)
					}
				}
			}(w)
		}
		var shots []*c19Shot
		nShots := 3 + r.Intn(4)
		for k := 0; k < nShots; k++ {
			time.Sleep(time.Duration(5+r.Intn(60)) * time.Millisecond)
			sh := &c19Shot{dir: filepath.Join(base, fmt.Sprintf("snap%04d-%d", c, k))}
			os.RemoveAll(sh.dir)
			for ti := range tabs {
				sh.durableStart = append(sh.durableStart, int(lastDurable[ti].Load()))
			}
			sh.created, sh.err = db.TakeFileSnapshot(sh.dir)
			for ti := range tabs {
				sh.ackedEnd = append(sh.ackedEnd, int(acked[ti].Load()))
			}
			shots = append(shots, sh)
			s.Count("c19.snapshots_taken", 1)
		}
		wg.Wait()
		stopMon.Store(true)
		// a last snapshot at rest, after everything has been flushed
		for i := 0; i < 4000; i++ {
			all := true
			for ti := range tabs {
				all = all && durable(ti) == nBatches
			}
			if all {
				break
			}
			time.Sleep(time.Millisecond)
		}
		sh := &c19Shot{dir: filepath.Join(base, fmt.Sprintf("snap%04d-rest", c))}
		os.RemoveAll(sh.dir)
		for ti := range tabs {
			sh.durableStart = append(sh.durableStart, max(0, durable(ti)))
		}
		sh.created, sh.err = db.TakeFileSnapshot(sh.dir)
		for ti := range tabs {
			sh.ackedEnd = append(sh.ackedEnd, int(acked[ti].Load()))
		}
		shots = append(shots, sh)
		// the source is undisturbed
		for _, f := range rel {
			f()
		}
		src, err := c19Scan(db)
		if err != nil {
			s.Violation("c19:source-scan-fails-after-snapshots", map[string]any{"case": c, "err": err.Error()})
		} else {
			for ti := 0; ti < nTables; ti++ {
				if k, bad := prefixOf(seed, ti, src[ti], nBatches); bad != "" || k != nBatches {
					s.Violation("c19:source-disturbed", map[string]any{"case": c, "table": ti, "prefix": k, "batches": nBatches, "what": bad})
				}
			}
		}
		db.Close()
		during := 0
		for si, sh := range shots {
			d := func(m map[string]any) map[string]any {
				m["case"], m["snapshot"], m["durable_before_call"], m["acknowledged_after_call"] = c, si, sh.durableStart, sh.ackedEnd
				return m
			}
			if sh.err != nil {
				s.Violation("c19:snapshot-call-fails", d(map[string]any{"err": sh.err.Error()}))
				continue
			}
			if !sh.created {
				anyDurable := false
				for _, n := range sh.durableStart {
					anyDurable = anyDurable || n > 0
				}
				if anyDurable {
					s.Violation("c19:snapshot-reports-nothing-although-flushed-data-exists", d(map[string]any{}))
				}
				continue
			}
			// structural: manifests and parts
			structural := ""
			filepath.Walk(sh.dir, func(p string, info os.FileInfo, err error) error {
				if err != nil || !info.IsDir() || !strings.HasPrefix(filepath.Base(p), "shard-") || structural != "" {
					return nil
				}
				ents, _ := os.ReadDir(p)
				var manifests []string
				partsOnDisk := map[string]bool{}
				for _, e := range ents {
					if !e.IsDir() && filepath.Ext(e.Name()) == snapshotSuffix {
						manifests = append(manifests, e.Name())
					}
					if e.IsDir() {
						partsOnDisk[e.Name()] = true
					}
				}
				rel, _ := filepath.Rel(sh.dir, p)
				if len(manifests) == 0 {
					if len(partsOnDisk) > 0 {
						structural = "shard " + rel + " has parts but no manifest"
					}
					return nil
				}
				if len(manifests) > 1 {
					structural = fmt.Sprintf("shard %s has %d manifests", rel, len(manifests))
					return nil
				}
				b, _ := os.ReadFile(filepath.Join(p, manifests[0]))
				var names []string
				if json.Unmarshal(b, &names) != nil {
					structural = "manifest of " + rel + " does not parse"
					return nil
				}
				for _, n := range names {
					mb, err := os.ReadFile(filepath.Join(p, n, metadataFilename))
					var probe map[string]any
					if err != nil || json.Unmarshal(mb, &probe) != nil {
						structural = fmt.Sprintf("manifest of %s lists part %s which is absent or has no readable metadata", rel, n)
						return nil
					}
					delete(partsOnDisk, n)
				}
				for n := range partsOnDisk {
					structural = fmt.Sprintf("shard %s holds part %s which its manifest does not list", rel, n)
				}
				return nil
			})
			if structural != "" {
				key := "c19:manifest-and-parts-disagree"
				if strings.Contains(structural, "absent or has no readable metadata") {
					key = "c19:manifest-lists-part-that-is-not-in-the-snapshot"
				}
				s.Violation(key, d(map[string]any{"what": structural}))
			}
			// semantic: open and query the copy
			cp, err := c19Open(sh.dir, 0, 100000)
			if err != nil {
				s.Violation("c19:snapshot-does-not-open", d(map[string]any{"err": err.Error()}))
				continue
			}
			got, err := c19Scan(cp)
			cp.Close()
			if err != nil {
				s.Violation("c19:snapshot-query-fails", d(map[string]any{"err": err.Error()}))
				continue
			}
			for ti := 0; ti < nTables; ti++ {
				k, bad := prefixOf(seed, ti, got[ti], nBatches)
				switch {
				case bad != "":
					s.Violation("c19:snapshot-is-a-mixture-not-a-prefix", d(map[string]any{"table": ti, "what": bad}))
				case k < sh.durableStart[ti]:
					s.Violation("c19:snapshot-misses-batches-flushed-before-the-call", d(map[string]any{"table": ti, "prefix_in_snapshot": k}))
				case k > sh.ackedEnd[ti]+1:
					s.Violation("c19:snapshot-holds-batches-from-the-future", d(map[string]any{"table": ti, "prefix_in_snapshot": k}))
				}
				if k > 0 && k < nBatches {
					during++
				}
			}
			s.Count("c19.snapshots_opened_and_queried", 1)
		}
		s.Case(fmt.Sprintf("c19/%d/%d", c, during), during > 0)
		if c == 0 {
			var ks []string
			for _, sh := range shots {
				ks = append(ks, fmt.Sprint(sh.durableStart, "->", sh.ackedEnd))
			}
			sort.Strings(ks)
			s.Sample(map[string]any{"tables": nTables, "batches_per_table": nBatches, "snapshots": len(shots), "durable_to_acked_windows": ks})
		}
		for _, sh := range shots {
			os.RemoveAll(sh.dir)
		}
		os.RemoveAll(dir)
	}
	os.RemoveAll(base)
	s.Done()
}
