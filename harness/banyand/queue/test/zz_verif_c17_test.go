package test

// C17 (part transfer) — a part shipped between nodes arrives exactly or not at all.
// The real sender (pub chunked-sync client) talks to the real receiver (sub server) through a gRPC proxy that
// forwards the SyncPart stream and injects one seeded fault per transfer: bit flip in a chunk, dropped chunk,
// duplicated chunk, chunks swapped (adjacent or far apart), stream ended early. The receiver hands chunks to
// a recording handler that behaves like the engines' own: FinishSync installs what has been received for the
// part, Close discards an unfinished part. Verdicts: whatever is installed equals what the sender holds, byte
// for byte; a transfer reported successful installed every part; after a failed transfer a fault-free retry
// of the same parts succeeds and installs them exactly.

import (
	"context"
	"fmt"
	"io"
	"net"
	"path/filepath"
	"sort"
	"sync"
	"testing"
	"time"

	"google.golang.org/grpc"
	"google.golang.org/grpc/credentials/insecure"
	"google.golang.org/grpc/health"
	healthpb "google.golang.org/grpc/health/grpc_health_v1"

	"github.com/apache/skywalking-banyandb/api/data"
	clusterv1 "github.com/apache/skywalking-banyandb/api/proto/banyandb/cluster/v1"
	commonv1 "github.com/apache/skywalking-banyandb/api/proto/banyandb/common/v1"
	databasev1 "github.com/apache/skywalking-banyandb/api/proto/banyandb/database/v1"
	"github.com/apache/skywalking-banyandb/banyand/internal/storage"
	"github.com/apache/skywalking-banyandb/banyand/metadata/schema"
	"github.com/apache/skywalking-banyandb/banyand/queue"
	"github.com/apache/skywalking-banyandb/banyand/queue/pub"
	"github.com/apache/skywalking-banyandb/pkg/bytes"
	"github.com/apache/skywalking-banyandb/pkg/fs"
	"github.com/apache/skywalking-banyandb/pkg/logger"
	"github.com/apache/skywalking-banyandb/pkg/verifh"
)

// ---- recording receiver -----------------------------------------------------------------------------------

type recHandler struct {
	installed map[uint64]map[string][]byte
	discarded int
	mu        sync.Mutex
}

type recPart struct {
	h        *recHandler
	files    map[string][]byte
	id       uint64
	finished bool
}

func (h *recHandler) HandleFileChunk(ctx *queue.ChunkedSyncPartContext, chunk []byte) error {
	p := ctx.Handler.(*recPart)
	p.files[ctx.FileName] = append(p.files[ctx.FileName], chunk...)
	return nil
}

func (h *recHandler) CreatePartHandler(ctx *queue.ChunkedSyncPartContext) (queue.PartHandler, error) {
	return &recPart{h: h, id: ctx.ID, files: map[string][]byte{}}, nil
}

func (p *recPart) NewPartType(*queue.ChunkedSyncPartContext) error { return nil }

func (p *recPart) FinishSync() error {
	p.h.mu.Lock()
	defer p.h.mu.Unlock()
	cp := map[string][]byte{}
	for k, v := range p.files {
		cp[k] = append([]byte(nil), v...)
	}
	p.h.installed[p.id] = cp
	p.finished = true
	return nil
}

func (p *recPart) Close() error {
	if !p.finished {
		p.h.mu.Lock()
		p.h.discarded++
		p.h.mu.Unlock()
	}
	return nil
}

// ---- fault-injecting proxy --------------------------------------------------------------------------------

type fault struct {
	kind string // none flip drop dup swap-near swap-far early-end
	at   int    // index among the data-carrying requests
}

type proxy struct {
	clusterv1.UnimplementedChunkedSyncServiceServer
	upstream string
	plan     fault
	applied  bool
	seen     int
	mu       sync.Mutex
}

func (p *proxy) setPlan(f fault) {
	p.mu.Lock()
	p.plan, p.applied, p.seen = f, false, 0
	p.mu.Unlock()
}

func (p *proxy) SyncPart(down clusterv1.ChunkedSyncService_SyncPartServer) error {
	conn, err := grpc.NewClient(p.upstream, grpc.WithTransportCredentials(insecure.NewCredentials()), grpc.WithDefaultCallOptions(grpc.MaxCallRecvMsgSize(64<<20), grpc.MaxCallSendMsgSize(64<<20)))
	if err != nil {
		return err
	}
	defer conn.Close()
	ctx, cancel := context.WithCancel(down.Context())
	defer cancel()
	up, err := clusterv1.NewChunkedSyncServiceClient(conn).SyncPart(ctx)
	if err != nil {
		return err
	}
	upDone := make(chan error, 1)
	var swMu sync.Mutex
	swallow := map[uint32]int{} // responses of chunks the proxy has already acknowledged on the receiver's behalf
	var sendMu sync.Mutex
	fakeAck := func(req *clusterv1.SyncPartRequest) error {
		swMu.Lock()
		swallow[req.ChunkIndex]++
		swMu.Unlock()
		sendMu.Lock()
		defer sendMu.Unlock()
		return down.Send(&clusterv1.SyncPartResponse{SessionId: req.SessionId, ChunkIndex: req.ChunkIndex, Status: clusterv1.SyncStatus_SYNC_STATUS_CHUNK_RECEIVED})
	}
	go func() { // receiver -> sender
		for {
			resp, rerr := up.Recv()
			if rerr != nil {
				upDone <- rerr
				return
			}
			swMu.Lock()
			skip := resp.Status != clusterv1.SyncStatus_SYNC_STATUS_SYNC_COMPLETE && swallow[resp.ChunkIndex] > 0
			if skip {
				swallow[resp.ChunkIndex]--
			}
			swMu.Unlock()
			if skip {
				continue
			}
			sendMu.Lock()
			serr := down.Send(resp)
			sendMu.Unlock()
			if serr != nil {
				upDone <- serr
				return
			}
		}
	}()
	var held *clusterv1.SyncPartRequest // a chunk kept back to be delivered later
	heldFor := 0
	for {
		req, rerr := down.Recv()
		if rerr == io.EOF {
			if held != nil {
				up.Send(held)
			}
			up.CloseSend()
			<-upDone
			return nil
		}
		if rerr != nil {
			return rerr
		}
		p.mu.Lock()
		plan := p.plan
		idx := -1
		if len(req.ChunkData) > 0 {
			idx = p.seen
			p.seen++
		}
		hit := idx >= 0 && idx == plan.at && !p.applied && plan.kind != "none"
		if hit {
			p.applied = true
		}
		p.mu.Unlock()
		if hit {
			switch plan.kind {
			case "flip":
				req.ChunkData = append([]byte(nil), req.ChunkData...)
				req.ChunkData[len(req.ChunkData)/2] ^= 0x20
			case "drop": // the chunk is lost on the way; the sender believes it arrived
				if aerr := fakeAck(req); aerr != nil {
					return aerr
				}
				swMu.Lock()
				swallow[req.ChunkIndex]-- // nothing will ever come back for it
				swMu.Unlock()
				continue
			case "dup":
				if serr := up.Send(req); serr != nil {
					return serr
				}
			case "swap-near": // delivered after its successor; the sender is told it arrived so that it goes on
				held, heldFor = req, 1
				if aerr := fakeAck(req); aerr != nil {
					return aerr
				}
				continue
			case "swap-far":
				held, heldFor = req, 14
				if aerr := fakeAck(req); aerr != nil {
					return aerr
				}
				continue
			case "early-end":
				up.Send(req)
				up.CloseSend()
				<-upDone
				return fmt.Errorf("verif: connection lost")
			}
		}
		if serr := up.Send(req); serr != nil {
			return serr
		}
		if held != nil && idx >= 0 {
			heldFor--
			if heldFor <= 0 {
				if serr := up.Send(held); serr != nil {
					return serr
				}
				held = nil
			}
		}
	}
}

// brokenReader is a part file the sender cannot read (disk error while streaming).
type brokenReader struct{ name string }

func (b *brokenReader) Read([]byte) (int, error) { return 0, fmt.Errorf("verif: input/output error") }
func (b *brokenReader) Path() string             { return b.name }
func (b *brokenReader) Close() error             { return nil }

// ---- the unit ---------------------------------------------------------------------------------------------

type sentPart struct {
	files map[string][]byte
	names []string
	id    uint64
}

// brokenFileIdx: which file of the broken part cannot be read (mkParts).
var brokenFileIdx = 0

func mkParts(parts []sentPart, broken ...uint64) []queue.StreamingPartData {
	var out []queue.StreamingPartData
	for _, sp := range parts {
		var fis []queue.FileInfo
		var total uint64
		for fi, n := range sp.names {
			if len(broken) > 0 && broken[0] == sp.id && fi == brokenFileIdx {
				fis = append(fis, queue.FileInfo{Name: n, Reader: &brokenReader{name: n}})
				total += uint64(len(sp.files[n]))
				continue
			}
			var buf bytes.Buffer
			buf.Write(sp.files[n])
			fis = append(fis, queue.FileInfo{Name: n, Reader: buf.SequentialRead()})
			total += uint64(len(sp.files[n]))
		}
		out = append(out, queue.StreamingPartData{ID: sp.id, Files: fis, Group: "g", ShardID: 1, Topic: data.TopicStreamPartSync.String(),
			CompressedSizeBytes: total, UncompressedSizeBytes: total, TotalCount: 1, BlocksCount: 1, MinTimestamp: 1, MaxTimestamp: 2})
	}
	return out
}

func TestVerifC17Transfer(t *testing.T) {
	s := verifh.S()
	setup := setupChunkedSyncTestWithChunkSize(t, "verif-c17", 1024)
	defer cleanupTestSetup(setup)
	rec := &recHandler{installed: map[uint64]map[string][]byte{}}
	setup.Server.RegisterChunkedSyncHandler(data.TopicStreamPartSync, rec)
	// the proxy in front of the receiver
	lis, err := net.Listen("tcp", "127.0.0.1:0")
	if err != nil {
		t.Fatal(err)
	}
	px := &proxy{upstream: setup.NodeAddr}
	gs := grpc.NewServer(grpc.MaxRecvMsgSize(64<<20), grpc.MaxSendMsgSize(64<<20))
	clusterv1.RegisterChunkedSyncServiceServer(gs, px)
	hs := health.NewServer()
	hs.SetServingStatus("", healthpb.HealthCheckResponse_SERVING)
	healthpb.RegisterHealthServer(gs, hs)
	go gs.Serve(lis)
	defer gs.Stop()
	client := pub.NewWithoutMetadata(nil)
	client.OnAddOrUpdate(schema.Metadata{TypeMeta: schema.TypeMeta{Name: "proxied", Kind: schema.KindNode},
		Spec: &databasev1.Node{Metadata: &commonv1.Metadata{Name: "proxied"}, Roles: []databasev1.Role{databasev1.Role_ROLE_DATA}, GrpcAddress: lis.Addr().String()}})
	dial := func(chunk uint32) queue.ChunkedSyncClient {
		for i := 0; i < 200; i++ {
			if c, cerr := client.NewChunkedSyncClient("proxied", chunk); cerr == nil {
				return c
			}
			time.Sleep(50 * time.Millisecond)
		}
		return nil
	}
	kinds := []string{"none", "flip", "drop", "dup", "swap-near", "swap-far", "early-end", "read-error"}
	var nextID uint64 = 100
	// Directed: one small part whose files all fit into a single chunk, and a *later* file of it cannot be read. The sender
	// has packed the leading files into the chunk buffer when the read fails; a failed transfer must leave the receiver
	// unchanged, so nothing of that part may be installed by this attempt; the retry (which reads fine) installs it exactly.
	for c := 0; c < verifh.Pick(8, 60); c++ {
		r := verifh.Rand("c17xfer-laterfile", c)
		px.setPlan(fault{kind: "none"})
		cc := dial(65536)
		if cc == nil {
			s.Inconclusive("the sender never connected through the proxy")
			break
		}
		nextID++
		sp := sentPart{id: nextID, files: map[string][]byte{}}
		nf := 2 + r.Intn(4)
		for fi := 0; fi < nf; fi++ {
			b := make([]byte, 1+r.Intn(2000))
			for i := range b {
				b[i] = byte(r.Intn(256))
			}
			n := fmt.Sprintf("f%d", fi)
			sp.files[n] = b
			sp.names = append(sp.names, n)
		}
		brokenFileIdx = 1 + r.Intn(nf-1)
		label := fmt.Sprintf("chunk=65536 parts=1 files=%d sender cannot read file %d of part %d", nf, brokenFileIdx, sp.id)
		ctx1, cancel1 := context.WithTimeout(context.Background(), 2*time.Second)
		res1, err1 := cc.SyncStreamingParts(ctx1, mkParts([]sentPart{sp}, sp.id))
		cancel1()
		brokenFileIdx = 0
		cc.Close()
		time.Sleep(20 * time.Millisecond)
		rec.mu.Lock()
		got1, inst1 := rec.installed[sp.id]
		rec.mu.Unlock()
		if inst1 {
			var have []string
			for n, b := range got1 {
				have = append(have, fmt.Sprintf("%s:%d bytes", n, len(b)))
			}
			sort.Strings(have)
			s.Violation("c17:transfer:part-the-sender-could-not-read-installed-by-the-failed-attempt", map[string]any{"case": c, "transfer": label, "installed_files": have,
				"result": fmt.Sprint(res1), "error": fmt.Sprint(err1)})
		}
		c2 := dial(65536)
		if c2 != nil {
			ctx2, cancel2 := context.WithTimeout(context.Background(), 6*time.Second)
			res2, err2 := c2.SyncStreamingParts(ctx2, mkParts([]sentPart{sp}))
			cancel2()
			c2.Close()
			time.Sleep(20 * time.Millisecond)
			rec.mu.Lock()
			got2, inst2 := rec.installed[sp.id]
			rec.mu.Unlock()
			exact := inst2 && len(got2) == len(sp.files)
			for _, n := range sp.names {
				exact = exact && string(got2[n]) == string(sp.files[n])
			}
			if err2 == nil && res2 != nil && res2.Success && !exact {
				s.Violation("c17:transfer:installed-part-differs-from-the-sender:retry-after-read-error", map[string]any{"case": c, "transfer": label, "installed": inst2})
			}
		}
		s.Count("c17.transfer.transfers", 1)
		s.Count("c17.transfer.fault.read-error.later-file", 1)
		s.Case(label, true)
	}
	for c := 0; c < verifh.Pick(120, 3000); c++ {
		caseStart := time.Now()
		r := verifh.Rand("c17xfer", c)
		chunk := []uint32{64, 200, 1000, 4096, 65536}[r.Intn(5)]
		cc := dial(chunk)
		if cc == nil {
			s.Inconclusive("the sender never connected through the proxy")
			break
		}
		var parts []sentPart
		for pi := 0; pi <= r.Intn(3); pi++ {
			nextID++
			sp := sentPart{id: nextID, files: map[string][]byte{}}
			for fi := 0; fi <= r.Intn(5); fi++ {
				size := []int{1, int(chunk) - 1, int(chunk), int(chunk) + 1, 3*int(chunk) + 7, r.Intn(5000) + 1, 10 * int(chunk)}[r.Intn(7)]
				if size > 300000 {
					size = 300000
				}
				b := make([]byte, size)
				for i := range b {
					b[i] = byte(r.Intn(256))
				}
				n := fmt.Sprintf("f%d", fi)
				sp.files[n] = b
				sp.names = append(sp.names, n)
			}
			parts = append(parts, sp)
		}
		total := 0
		for _, sp := range parts {
			for _, b := range sp.files {
				total += len(b)
			}
		}
		nChunks := max(1, (total+int(chunk)-1)/int(chunk))
		f := fault{kind: kinds[r.Intn(len(kinds))], at: r.Intn(nChunks)}
		if f.kind == "read-error" {
			// the sender cannot read one part of the batch: the part is reported failed, goes through the syncers'
			// retry handler and must end up installed (the retry reads it fine) or be reported permanently failed
			px.setPlan(fault{kind: "none"})
			victim := parts[r.Intn(len(parts))].id
			ctxR, cancelR := context.WithTimeout(context.Background(), 6*time.Second)
			resR, errR := cc.SyncStreamingParts(ctxR, mkParts(parts, victim))
			cancelR()
			label := fmt.Sprintf("chunk=%d parts=%d sender cannot read part %d", chunk, len(parts), victim)
			var failed []queue.FailedPart
			if resR != nil {
				failed = resR.FailedParts
			}
			if errR != nil || resR == nil {
				// the whole call failed (e.g. no part produced a chunk and the stream ran into its deadline): the
				// syncer retries the whole batch in that case, nothing is reported per part
				rec.mu.Lock()
				_, inst := rec.installed[victim]
				rec.mu.Unlock()
				if inst {
					s.Violation("c17:transfer:unreadable-part-installed", map[string]any{"case": c, "transfer": label, "error": fmt.Sprint(errR)})
				}
				cc.Close()
				s.Count("c17.transfer.transfers", 1)
				s.Count("c17.transfer.fault.read-error.whole-call-failed", 1)
				s.Case(label, true)
				continue
			}
			handler := storage.NewFailedPartsHandler(fs.NewLocalFileSystem(), filepath.Join(verifh.Scratch(), "c17-failed"), logger.GetLogger("verif"), 0)
			retried := map[uint64]int{}
			permanently, rerr := handler.RetryFailedParts(context.Background(), failed, map[uint64][]*storage.PartInfo{}, func(ids []uint64) ([]queue.FailedPart, error) {
				var again []sentPart
				for _, id := range ids {
					retried[id]++
					for _, sp := range parts {
						if sp.id == id {
							again = append(again, sp)
						}
					}
				}
				if len(again) == 0 {
					return nil, nil
				}
				c2 := dial(chunk)
				defer c2.Close()
				ctx2, cancel2 := context.WithTimeout(context.Background(), 6*time.Second)
				defer cancel2()
				r2, e2 := c2.SyncStreamingParts(ctx2, mkParts(again))
				if r2 != nil {
					return r2.FailedParts, e2
				}
				return nil, e2
			})
			time.Sleep(20 * time.Millisecond)
			rec.mu.Lock()
			got, inst := rec.installed[victim]
			rec.mu.Unlock()
			exact := inst
			for _, sp := range parts {
				if sp.id == victim && inst {
					for _, n := range sp.names {
						exact = exact && string(got[n]) == string(sp.files[n])
					}
				}
			}
			perm := false
			for _, id := range permanently {
				perm = perm || id == victim
			}
			d := map[string]any{"case": c, "transfer": label, "first_attempt_error": fmt.Sprint(errR), "failed_parts_reported": fmt.Sprint(failed), "retry_error": fmt.Sprint(rerr),
				"parts_the_handler_retried": fmt.Sprint(retried), "permanently_failed": fmt.Sprint(permanently)}
			switch {
			case inst && !exact:
				s.Violation("c17:transfer:installed-part-differs-from-the-sender:read-error", d)
			case !inst && !perm:
				s.Violation("c17:transfer:failed-part-neither-retried-nor-reported-permanently-failed", d)
			}
			cc.Close()
			s.Count("c17.transfer.transfers", 1)
			s.Count("c17.transfer.fault.read-error.applied", 1)
			s.Case(label, true)
			continue
		}
		px.setPlan(f)
		ctx, cancel := context.WithTimeout(context.Background(), 6*time.Second)
		res, serr := cc.SyncStreamingParts(ctx, mkParts(parts))
		cancel()
		px.mu.Lock()
		applied := px.applied
		px.mu.Unlock()
		ok := serr == nil && res != nil && res.Success
		label := fmt.Sprintf("chunk=%d parts=%d bytes=%d fault=%s@%d/%d applied=%v", chunk, len(parts), total, f.kind, f.at, nChunks, applied)
		d := func(m map[string]any) map[string]any {
			m["case"], m["transfer"], m["reported_success"], m["error"] = c, label, ok, fmt.Sprint(serr)
			return m
		}
		time.Sleep(20 * time.Millisecond) // the receiver's stream exit path runs after the sender returned
		check := func(stage string, mustAll bool) {
			rec.mu.Lock()
			defer rec.mu.Unlock()
			for _, sp := range parts {
				got, inst := rec.installed[sp.id]
				if !inst {
					if mustAll {
						s.Violation("c17:transfer:reported-success-but-part-not-installed:"+f.kind, d(map[string]any{"stage": stage, "part": sp.id}))
					}
					continue
				}
				var diffs []string
				for _, n := range sp.names {
					if string(got[n]) != string(sp.files[n]) {
						diffs = append(diffs, fmt.Sprintf("%s: %d bytes installed, %d sent", n, len(got[n]), len(sp.files[n])))
					}
				}
				for n := range got {
					if _, known := sp.files[n]; !known {
						diffs = append(diffs, "unknown file "+n)
					}
				}
				sort.Strings(diffs)
				if len(diffs) > 0 {
					s.Violation("c17:transfer:installed-part-differs-from-the-sender:"+map[bool]string{true: f.kind, false: "none"}[applied], d(map[string]any{"stage": stage, "part": sp.id, "differences": diffs}))
				}
			}
		}
		check("after the transfer", ok)
		if !ok {
			s.Count("c17.transfer.failed_transfers", 1)
			// the retry: same parts, no fault; the receiver must be in a state that accepts them
			px.setPlan(fault{kind: "none"})
			rec.mu.Lock()
			for _, sp := range parts {
				delete(rec.installed, sp.id) // what the failed attempt may have installed was judged above
			}
			rec.mu.Unlock()
			cc2 := dial(chunk)
			ctx2, cancel2 := context.WithTimeout(context.Background(), 6*time.Second)
			res2, err2 := cc2.SyncStreamingParts(ctx2, mkParts(parts))
			cancel2()
			cc2.Close()
			if err2 != nil || res2 == nil || !res2.Success {
				s.Violation("c17:transfer:retry-after-failed-transfer-fails", d(map[string]any{"retry_error": fmt.Sprint(err2)}))
			} else {
				time.Sleep(10 * time.Millisecond)
				check("after the retry", true)
			}
		}
		cc.Close()
		if el := time.Since(caseStart); el > 5*time.Second {
			s.Note(fmt.Sprintf("slow transfer (%s): %s", el.Round(time.Second), label))
		}
		s.Count("c17.transfer.transfers", 1)
		s.Count("c17.transfer.fault."+f.kind+map[bool]string{true: ".applied", false: ".not-reached"}[applied || f.kind == "none"], 1)
		s.Case(label, applied)
		if c < 3 {
			s.Sample(map[string]any{"transfer": label, "reported_success": ok})
		}
	}
	s.Done()
}
