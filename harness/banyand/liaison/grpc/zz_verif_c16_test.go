package grpc

// C16 (write routing at the liaison) — the shard of a write is a function of resource name, entity (or
// sharding-key) values and shard count, whatever the LAYOUT of the request that carries the values. A write may
// follow the schema layout (all tag families and tags in schema order) or carry its own spec (families in any
// order, tags in any order, families and tags left out). Seeded schemas (1-4 tag families, entity tags spread over
// them, optional sharding key) and logical rows are written in the schema layout and in seeded spec layouts
// through the liaison's own locators (newSpecLocator + partition.ApplyLocators, exactly as navigateByLocator
// composes them). Oracle: the entity values and the shard id of every layout equal those computed from the
// logical row by the model (subject + values in entity order, null for a value the layout does not carry).

import (
	"fmt"
	"math/rand"
	"testing"

	"google.golang.org/protobuf/proto"

	databasev1 "github.com/apache/skywalking-banyandb/api/proto/banyandb/database/v1"
	measurev1 "github.com/apache/skywalking-banyandb/api/proto/banyandb/measure/v1"
	modelv1 "github.com/apache/skywalking-banyandb/api/proto/banyandb/model/v1"
	streamv1 "github.com/apache/skywalking-banyandb/api/proto/banyandb/stream/v1"
	"github.com/apache/skywalking-banyandb/pkg/partition"
	pbv1 "github.com/apache/skywalking-banyandb/pkg/pb/v1"
	"github.com/apache/skywalking-banyandb/pkg/verifh"
)

type c16Tag struct {
	family, name string
	isInt        bool
}

func c16Value(r *rand.Rand, tg c16Tag) *modelv1.TagValue {
	if tg.isInt {
		return &modelv1.TagValue{Value: &modelv1.TagValue_Int{Int: &modelv1.Int{Value: []int64{0, 1, -1, 46, 1 << 40, int64(r.Intn(1000))}[r.Intn(6)]}}}
	}
	return &modelv1.TagValue{Value: &modelv1.TagValue_Str{Str: &modelv1.Str{Value: []string{"", "a", "svc-1", "a|b", "é", fmt.Sprint("v", r.Intn(1000))}[r.Intn(6)]}}}
}

func TestVerifC16Locator(t *testing.T) {
	s := verifh.S()
	nullTV := &modelv1.TagValue{Value: &modelv1.TagValue_Null{}}
	for c := 0; c < verifh.Pick(2500, 60000); c++ {
		r := verifh.Rand("c16locator", c)
		// schema
		nf := 1 + r.Intn(4)
		var families []*databasev1.TagFamilySpec
		var all []c16Tag
		for f := 0; f < nf; f++ {
			fam := &databasev1.TagFamilySpec{Name: fmt.Sprintf("fam%d", f)}
			for k := 0; k < 1+r.Intn(4); k++ {
				tg := c16Tag{family: fam.Name, name: fmt.Sprintf("t%d_%d", f, k), isInt: r.Intn(3) == 0}
				typ := databasev1.TagType_TAG_TYPE_STRING
				if tg.isInt {
					typ = databasev1.TagType_TAG_TYPE_INT
				}
				fam.Tags = append(fam.Tags, &databasev1.TagSpec{Name: tg.name, Type: typ})
				all = append(all, tg)
			}
			families = append(families, fam)
		}
		perm := r.Perm(len(all))
		ne := 1 + r.Intn(min(3, len(all)))
		var entityTags []c16Tag
		var entityNames []string
		for _, i := range perm[:ne] {
			entityTags = append(entityTags, all[i])
			entityNames = append(entityNames, all[i].name)
		}
		var skTags []c16Tag
		var skNames []string
		if r.Intn(3) == 0 {
			p2 := r.Perm(len(all))
			for _, i := range p2[:1+r.Intn(min(2, len(all)))] {
				skTags = append(skTags, all[i])
				skNames = append(skNames, all[i].name)
			}
		}
		shardNum := uint32(1 + r.Intn(16))
		if r.Intn(5) == 0 {
			shardNum = []uint32{1, 2, 3, 255, 256, 1 << 20}[r.Intn(6)]
		}
		subject := []string{"m1", "service_cpm", "s"}[r.Intn(3)]
		// one logical row
		row := map[string]*modelv1.TagValue{}
		for _, tg := range all {
			row[tg.name] = c16Value(r, tg)
		}
		// the model: routing key = sharding key if any, else entity; values in declared order
		model := func(carried map[string]bool) (pbv1.EntityValues, uint32, error) {
			vals := func(tags []c16Tag) pbv1.EntityValues {
				ev := pbv1.EntityValues{pbv1.EntityStrValue(subject)}
				for _, tg := range tags {
					if carried[tg.name] {
						ev = append(ev, row[tg.name])
					} else {
						ev = append(ev, nullTV)
					}
				}
				return ev
			}
			ev := vals(entityTags)
			routing := ev
			if len(skTags) > 0 {
				routing = vals(skTags)
			}
			ent, err := routing.ToEntity()
			if err != nil {
				return nil, 0, err
			}
			id, err := partition.ShardID(ent.Marshal(), shardNum)
			return ev, uint32(id), err
		}
		// schema layout through the cached locators the liaison uses for spec-less writes
		var schemaWrite []*modelv1.TagFamilyForWrite
		everything := map[string]bool{}
		for _, fam := range families {
			w := &modelv1.TagFamilyForWrite{}
			for _, tg := range fam.Tags {
				w.Tags = append(w.Tags, row[tg.Name])
				everything[tg.Name] = true
			}
			schemaWrite = append(schemaWrite, w)
		}
		entityLoc := partition.NewEntityLocator(families, &databasev1.Entity{TagNames: entityNames}, 0)
		var skRouter partition.Router
		if len(skNames) > 0 {
			skRouter = partition.NewShardingKeyLocator(families, &databasev1.ShardingKey{TagNames: skNames})
		}
		wantEV, wantShard, merr := model(everything)
		gotEV, gotShard, err := partition.ApplyLocators(subject, schemaWrite, entityLoc, skRouter, shardNum)
		s.Case(fmt.Sprintf("schema/%d/%v/%v/%d", c, entityNames, skNames, shardNum), shardNum > 1)
		if merr != nil || err != nil || uint32(gotShard) != wantShard || !c16SameValues(gotEV, wantEV) || uint32(gotShard) >= shardNum {
			s.Violation("c16:locator:schema-layout-differs-from-the-model", map[string]any{"entity": entityNames, "sharding_key": skNames, "shardNum": shardNum,
				"shard": gotShard, "model_shard": wantShard, "err": fmt.Sprint(err, merr), "values": fmt.Sprint(gotEV), "model_values": fmt.Sprint(wantEV)})
			continue
		}
		// spec layouts
		for v := 0; v < 4; v++ {
			order := r.Perm(len(families))
			var specNames [][]string // per spec family: family name first, then tag names
			carried := map[string]bool{}
			mode := r.Intn(4) // 0: all families, 1-2: families and tags may be left out if they carry no routing tag, 3: anything may be left out
			needed := map[string]bool{}
			for _, tg := range entityTags {
				needed[tg.name] = true
			}
			for _, tg := range skTags {
				needed[tg.name] = true
			}
			for _, fi := range order {
				fam := families[fi]
				famNeeded := false
				for _, tg := range fam.Tags {
					famNeeded = famNeeded || needed[tg.Name]
				}
				if (mode == 1 || mode == 2) && !famNeeded && r.Intn(2) == 0 {
					continue
				}
				if mode == 3 && r.Intn(3) == 0 {
					continue
				}
				entry := []string{fam.Name}
				for _, ti := range r.Perm(len(fam.Tags)) {
					tg := fam.Tags[ti]
					if (mode == 1 || mode == 2) && !needed[tg.Name] && r.Intn(3) == 0 {
						continue
					}
					if mode == 3 && r.Intn(4) == 0 {
						continue
					}
					entry = append(entry, tg.Name)
					carried[tg.Name] = true
				}
				specNames = append(specNames, entry)
			}
			var specWrite []*modelv1.TagFamilyForWrite
			specFamilies := make([]tagFamilySpec, 0, len(specNames))
			asStream := r.Intn(2) == 0
			for _, entry := range specNames {
				w := &modelv1.TagFamilyForWrite{}
				for _, n := range entry[1:] {
					w.Tags = append(w.Tags, row[n])
				}
				specWrite = append(specWrite, w)
				if asStream {
					specFamilies = append(specFamilies, streamTagFamilySpec{&streamv1.TagFamilySpec{Name: entry[0], TagNames: entry[1:]}})
				} else {
					specFamilies = append(specFamilies, measureTagFamilySpec{&measurev1.TagFamilySpec{Name: entry[0], TagNames: entry[1:]}})
				}
			}
			specEntity := newSpecLocator(families, entityNames, specFamilies)
			var specSK partition.Router
			if len(skNames) > 0 {
				specSK = newSpecLocator(families, skNames, specFamilies)
			}
			wEV, wShard, merr := model(carried)
			gEV, gShard, err := partition.ApplyLocators(subject, specWrite, specEntity, specSK, shardNum)
			identity := len(specNames) == len(families)
			for i := range specNames {
				identity = identity && i < len(families) && specNames[i][0] == families[i].Name
			}
			s.Case(fmt.Sprintf("spec/%d/%d/%v", c, v, specNames), !identity && shardNum > 1)
			s.Count("c16.locator.spec_layouts", 1)
			if len(carried) < len(all) {
				s.Count("c16.locator.spec_layouts_leaving_tags_out", 1)
			}
			if c < 2 && v == 0 {
				s.Sample(map[string]any{"schema_families": fmt.Sprint(families), "entity": entityNames, "sharding_key": skNames, "spec_layout": specNames, "shardNum": shardNum, "shard": gShard})
			}
			if merr != nil {
				continue // the model cannot build the routing key either (no such case is generated)
			}
			if err != nil || uint32(gShard) != wShard || !c16SameValues(gEV, wEV) {
				s.Violation("c16:locator:spec-layout-routes-differently", map[string]any{"entity": entityNames, "sharding_key": skNames, "shardNum": shardNum,
					"schema_families": fmt.Sprint(families), "spec_layout": specNames, "shard": gShard, "model_shard": wShard, "schema_layout_shard": gotShard, "err": fmt.Sprint(err),
					"values": fmt.Sprint(gEV), "model_values": fmt.Sprint(wEV)})
			}
		}
	}
	s.Done()
}

func c16SameValues(a, b pbv1.EntityValues) bool {
	if len(a) != len(b) {
		return false
	}
	for i := range a {
		if !proto.Equal(a[i], b[i]) {
			return false
		}
	}
	return true
}
