package grpc

// C18 (coordinator decision) — Apply must build on the newest copy any replica holds, and a tombstone is a copy.
// The coordinator's own selection function is fed every replica state of a small scope: one key, revisions
// 1..4, each replica holding any subset of them, each held copy live or tombstoned. Reference: the base of
// the next apply is the copy with the greatest revision anywhere, if it is live, else nothing (the key was
// deleted: earlier tags must not come back, Created must be true); the clean-up list is every live copy.

import (
	"fmt"
	"sort"
	"testing"

	commonv1 "github.com/apache/skywalking-banyandb/api/proto/banyandb/common/v1"
	propertyv1 "github.com/apache/skywalking-banyandb/api/proto/banyandb/property/v1"
	"github.com/apache/skywalking-banyandb/pkg/verifh"
)

func TestVerifC18Coordinator(t *testing.T) {
	s := verifh.S()
	ps := &propertyServer{}
	const revs = 4
	// state of one replica: per revision 0 = absent, 1 = live, 2 = tombstone  -> 3^4 states; 2 or 3 replicas
	nStates := 81
	decode := func(x int) [revs]int {
		var a [revs]int
		for i := 0; i < revs; i++ {
			a[i] = x % 3
			x /= 3
		}
		return a
	}
	check := func(states []int) {
		nodeProps := map[string][]*propertyWithMetadata{}
		bestRev, bestLive := int64(0), false
		var wantOlder []string
		for ni, st := range states {
			a := decode(st)
			node := fmt.Sprint("n", ni)
			for i := 0; i < revs; i++ {
				if a[i] == 0 {
					continue
				}
				rev := int64(i + 1)
				p := &propertyWithMetadata{Property: &propertyv1.Property{Metadata: &commonv1.Metadata{Group: "g", Name: "n", ModRevision: rev, CreateRevision: 1}, Id: "k"}, node: node}
				if a[i] == 2 {
					p.deletedTime = 100 + rev
				} else {
					wantOlder = append(wantOlder, fmt.Sprint(node, "/", rev))
				}
				nodeProps[node] = append(nodeProps[node], p)
				// the newest copy anywhere; at the same revision a tombstone outranks the live copy
				if rev > bestRev || (rev == bestRev && a[i] == 2) {
					bestRev, bestLive = rev, a[i] == 1
				}
			}
		}
		prev, older := ps.findPrevAndOlderProperties(nodeProps)
		var gotOlder []string
		for _, o := range older {
			gotOlder = append(gotOlder, fmt.Sprint(o.node, "/", o.Metadata.ModRevision))
		}
		sort.Strings(gotOlder)
		sort.Strings(wantOlder)
		baseRev, baseLive := int64(0), false
		if prev != nil {
			baseRev, baseLive = prev.Metadata.ModRevision, prev.deletedTime <= 0
		}
		var desc []string
		for _, st := range states {
			desc = append(desc, fmt.Sprint(decode(st)))
		}
		s.Count("c18.coordinator.replica_states", 1)
		nontrivial := false
		for _, st := range states {
			for _, v := range decode(st) {
				nontrivial = nontrivial || v == 2
			}
		}
		s.Case(fmt.Sprint(states), nontrivial)
		// what Apply does with it: prev is used as the base only when it is live
		usedAsBase := prev != nil && baseLive
		switch {
		case bestRev == 0:
			if prev != nil {
				s.Violation("c18:coordinator:base-invented", map[string]any{"replicas(rev1..4: 0 absent,1 live,2 tombstone)": desc})
			}
		case usedAsBase != bestLive || (usedAsBase && baseRev != bestRev):
			key := "c18:coordinator:apply-builds-on-a-stale-copy"
			if !bestLive {
				key = "c18:coordinator:tombstone-does-not-shadow-stale-live-copies"
			}
			s.Violation(key, map[string]any{"replicas(rev1..4: 0 absent,1 live,2 tombstone)": desc, "newest_copy_revision": bestRev, "newest_copy_is_live": bestLive,
				"base_chosen_revision": baseRev, "base_chosen_is_live": baseLive})
		}
		if fmt.Sprint(gotOlder) != fmt.Sprint(wantOlder) {
			s.Violation("c18:coordinator:clean-up-list-differs", map[string]any{"replicas(rev1..4: 0 absent,1 live,2 tombstone)": desc, "got": gotOlder, "want_every_live_copy": wantOlder})
		}
	}
	for a := 0; a < nStates; a++ {
		for b := 0; b < nStates; b++ {
			check([]int{a, b})
		}
	}
	n3 := verifh.Pick(20000, 400000)
	for i := 0; i < n3; i++ {
		r := verifh.Rand("c18coord", i)
		check([]int{r.Intn(nStates), r.Intn(nStates), r.Intn(nStates)})
	}
	s.Sample(map[string]any{"scope": "one key, revisions 1..4, every pair of replica states (81x81) plus seeded triples"})
	s.Done()
}
