package grpc

// C18 (coordinator decision) — Apply must build on the newest copy any replica holds, and a tombstone is a copy.
// The coordinator's own selection function is fed every replica state of a small scope: one key, revisions
// 1..4, each replica holding any subset of them, each held copy live or tombstoned. Reference: the base of
// the next apply is the copy with the greatest revision anywhere, if it is live, else nothing (the key was
// deleted: earlier tags must not come back, Created must be true); the clean-up list is every live copy.

import (
	"fmt"
	"sort"
	"testing"

	commonv1 "github.com/apache/skywalking-banyandb/api/proto/banyandb/common/v1"
	modelv1 "github.com/apache/skywalking-banyandb/api/proto/banyandb/model/v1"
	propertyv1 "github.com/apache/skywalking-banyandb/api/proto/banyandb/property/v1"
	"github.com/apache/skywalking-banyandb/pkg/verifh"
)

func TestVerifC18Coordinator(t *testing.T) {
	s := verifh.S()
	ps := &propertyServer{}
	const revs = 4
	// state of one replica: per revision 0 = absent, 1 = live, 2 = tombstone  -> 3^4 states; 2 or 3 replicas
	nStates := 81
	decode := func(x int) [revs]int {
		var a [revs]int
		for i := 0; i < revs; i++ {
			a[i] = x % 3
			x /= 3
		}
		return a
	}
	check := func(states []int) {
		nodeProps := map[string][]*propertyWithMetadata{}
		bestRev, bestLive := int64(0), false
		var wantOlder []string
		for ni, st := range states {
			a := decode(st)
			node := fmt.Sprint("n", ni)
			for i := 0; i < revs; i++ {
				if a[i] == 0 {
					continue
				}
				rev := int64(i + 1)
				p := &propertyWithMetadata{Property: &propertyv1.Property{Metadata: &commonv1.Metadata{Group: "g", Name: "n", ModRevision: rev, CreateRevision: 1}, Id: "k"}, node: node}
				if a[i] == 2 {
					p.deletedTime = 100 + rev
				} else {
					wantOlder = append(wantOlder, fmt.Sprint(node, "/", rev))
				}
				nodeProps[node] = append(nodeProps[node], p)
				// the newest copy anywhere; at the same revision a tombstone outranks the live copy
				if rev > bestRev || (rev == bestRev && a[i] == 2) {
					bestRev, bestLive = rev, a[i] == 1
				}
			}
		}
		prev, older := ps.findPrevAndOlderProperties(nodeProps)
		var gotOlder []string
		for _, o := range older {
			gotOlder = append(gotOlder, fmt.Sprint(o.node, "/", o.Metadata.ModRevision))
		}
		sort.Strings(gotOlder)
		sort.Strings(wantOlder)
		baseRev, baseLive := int64(0), false
		if prev != nil {
			baseRev, baseLive = prev.Metadata.ModRevision, prev.deletedTime <= 0
		}
		var desc []string
		for _, st := range states {
			desc = append(desc, fmt.Sprint(decode(st)))
		}
		s.Count("c18.coordinator.replica_states", 1)
		nontrivial := false
		for _, st := range states {
			for _, v := range decode(st) {
				nontrivial = nontrivial || v == 2
			}
		}
		s.Case(fmt.Sprint(states), nontrivial)
		// what Apply does with it: prev is used as the base only when it is live
		usedAsBase := prev != nil && baseLive
		switch {
		case bestRev == 0:
			if prev != nil {
				s.Violation("c18:coordinator:base-invented", map[string]any{"replicas(rev1..4: 0 absent,1 live,2 tombstone)": desc})
			}
		case usedAsBase != bestLive || (usedAsBase && baseRev != bestRev):
			key := "c18:coordinator:apply-builds-on-a-stale-copy"
			if !bestLive {
				key = "c18:coordinator:tombstone-does-not-shadow-stale-live-copies"
			}
			s.Violation(key, map[string]any{"replicas(rev1..4: 0 absent,1 live,2 tombstone)": desc, "newest_copy_revision": bestRev, "newest_copy_is_live": bestLive,
				"base_chosen_revision": baseRev, "base_chosen_is_live": baseLive})
		}
		if fmt.Sprint(gotOlder) != fmt.Sprint(wantOlder) {
			s.Violation("c18:coordinator:clean-up-list-differs", map[string]any{"replicas(rev1..4: 0 absent,1 live,2 tombstone)": desc, "got": gotOlder, "want_every_live_copy": wantOlder})
		}
	}
	for a := 0; a < nStates; a++ {
		for b := 0; b < nStates; b++ {
			check([]int{a, b})
		}
	}
	n3 := verifh.Pick(20000, 400000)
	for i := 0; i < n3; i++ {
		r := verifh.Rand("c18coord", i)
		check([]int{r.Intn(nStates), r.Intn(nStates), r.Intn(nStates)})
	}
	s.Sample(map[string]any{"scope": "one key, revisions 1..4, every pair of replica states (81x81) plus seeded triples"})
	queryDedup(s, ps)
	s.Done()
}

// queryDedup: a query over replicas returns one value per key - the copy with the greatest revision - whatever
// the replicas still hold and in whatever order their answers are merged. Every node answers with its copies
// sorted by the order-by value (which may differ from revision to revision of a key); the coordinator's own
// merge functions (sorted and unsorted) are fed seeded replica states.
func queryDedup(s *verifh.Sink, ps *propertyServer) {
	for c := 0; c < verifh.Pick(20000, 300000); c++ {
		r := verifh.Rand("c18query", c)
		nKeys, nNodes := 1+r.Intn(4), 2+r.Intn(2)
		desc := r.Intn(2) == 0
		type copyT struct {
			rev int64
			sv  byte
		}
		// per key: revisions 1..3 with a sort value each (changing or not)
		revs := make([][]copyT, nKeys)
		for k := range revs {
			n := 1 + r.Intn(3)
			sv := byte('a' + r.Intn(6))
			for i := 0; i < n; i++ {
				if r.Intn(2) == 0 {
					sv = byte('a' + r.Intn(6))
				}
				revs[k] = append(revs[k], copyT{rev: int64(i + 1), sv: sv})
			}
		}
		nodeProps := map[string][]*propertyWithMetadata{}
		want := map[string]copyT{}
		var hist []string
		for n := 0; n < nNodes; n++ {
			node := fmt.Sprint("n", n)
			var list []*propertyWithMetadata
			for k := range revs {
				// a node holds one live copy of a key (the newest it has received), or none
				if r.Intn(5) == 0 {
					continue
				}
				cp := revs[k][r.Intn(len(revs[k]))]
				id := fmt.Sprint("k", k)
				list = append(list, &propertyWithMetadata{Property: &propertyv1.Property{Metadata: &commonv1.Metadata{Group: "g", Name: "n", ModRevision: cp.rev, CreateRevision: 1}, Id: id},
					node: node, sortedValue: []byte{cp.sv}})
				if w, ok := want[id]; !ok || cp.rev > w.rev {
					want[id] = cp
				}
				hist = append(hist, fmt.Sprintf("%s:%s@%d=%c", node, id, cp.rev, cp.sv))
			}
			sort.SliceStable(list, func(i, j int) bool {
				if desc {
					return list[i].sortedValue[0] > list[j].sortedValue[0]
				}
				return list[i].sortedValue[0] < list[j].sortedValue[0]
			})
			if len(list) > 0 {
				nodeProps[node] = list
			}
		}
		stale := false
		for _, l := range nodeProps {
			for _, p := range l {
				stale = stale || p.Metadata.ModRevision < want[p.Id].rev
			}
		}
		s.Case(fmt.Sprint("query/", desc, hist), stale)
		if c < 1 {
			s.Sample(map[string]any{"replica_answers(node:key@revision=sort value)": hist, "descending": desc})
		}
		judge := func(path string, got []*propertyWithCount, ordered bool) {
			seen := map[string]bool{}
			bad := ""
			for i, g := range got {
				w, ok := want[g.Id]
				switch {
				case !ok:
					bad = "a key nobody holds: " + g.Id
				case seen[g.Id]:
					bad = "key " + g.Id + " returned twice"
				case g.Metadata.ModRevision != w.rev:
					bad = fmt.Sprintf("key %s returned at revision %d, newest held revision is %d", g.Id, g.Metadata.ModRevision, w.rev)
				case ordered && i > 0 && ((desc && got[i-1].sortedValue[0] < g.sortedValue[0]) || (!desc && got[i-1].sortedValue[0] > g.sortedValue[0])):
					bad = fmt.Sprintf("not sorted at position %d", i)
				}
				seen[g.Id] = true
				if bad != "" {
					break
				}
			}
			if bad == "" && len(seen) != len(want) {
				bad = fmt.Sprintf("%d keys returned, %d held", len(seen), len(want))
			}
			if bad != "" {
				s.Violation("c18:coordinator:query-dedup:"+path, map[string]any{"replica_answers(node:key@revision=sort value)": hist, "descending": desc, "discrepancy": bad})
			}
		}
		sortDir := modelv1.Sort_SORT_ASC
		if desc {
			sortDir = modelv1.Sort_SORT_DESC
		}
		judge("sorted", ps.sortedQueryWithDedup(nodeProps, &propertyv1.QueryRequest{Limit: 100, OrderBy: &propertyv1.QueryOrder{TagName: "t", Sort: sortDir}}), true)
		judge("unsorted", ps.simpleDedupWithoutSort(nodeProps), false)
		s.Count("c18.coordinator.query_merges", 2)
	}
}
