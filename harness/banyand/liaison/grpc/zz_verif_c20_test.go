package grpc

// C20 (prepared-statement cache) — a statement served from the gRPC prepared-statement cache is the statement
// of ITS OWN text. Seeded sequences of parameterized statements go through one cache instance (small and
// large bounds, so hits, misses, evictions and re-parses all occur); the families contain statements that
// differ only inside quoted literals (runs of blanks, tabs, newlines, case, escaped quotes) or only outside
// them. Oracle: the statement handed out by the cache, bound to the parameters, deep-equals a statement
// prepared afresh from the same text and bound to the same parameters.

import (
	"fmt"
	"reflect"
	"strings"
	"testing"

	modelv1 "github.com/apache/skywalking-banyandb/api/proto/banyandb/model/v1"
	"github.com/apache/skywalking-banyandb/pkg/bydbql"
	"github.com/apache/skywalking-banyandb/pkg/verifh"
)

func TestVerifC20Cache(t *testing.T) {
	s := verifh.S()
	lits := []string{"order service", "order  service", "order\tservice", "order\nservice", " order service", "order service ", "Order Service", "order''service", "a|b", "a || b", "?", "x?y", ""}
	templates := []string{
		"SELECT * FROM STREAM sw IN g1 TIME > '-30m' WHERE svc = '%s' AND inst = ?",
		"SELECT * FROM STREAM sw IN g1 TIME > '-30m' WHERE inst = ? AND svc = '%s'",
		"SELECT * FROM MEASURE m IN g1 TIME > '-30m' WHERE svc = '%s' AND n > ?",
		"SELECT * FROM STREAM sw IN g1 TIME > '-30m' WHERE svc IN ('%s', ?)",
		"SELECT * FROM STREAM sw IN g1 TIME > '-30m' WHERE msg MATCH('%s') AND inst = ? LIMIT 10",
	}
	spacings := []func(string) string{
		func(q string) string { return q },
		func(q string) string { return strings.Replace(q, " WHERE ", "  WHERE\t", 1) },
		func(q string) string { return strings.Replace(q, "SELECT * FROM", "select  *  from", 1) },
		func(q string) string { return q + " " },
	}
	params := func(i int) []*modelv1.TagValue {
		if i%2 == 0 {
			return []*modelv1.TagValue{{Value: &modelv1.TagValue_Str{Str: &modelv1.Str{Value: fmt.Sprint("p", i)}}}}
		}
		return []*modelv1.TagValue{{Value: &modelv1.TagValue_Int{Int: &modelv1.Int{Value: int64(i)}}}}
	}
	// self-check of the oracle: two fresh Prepares of one text must deep-equal, or DeepEqual decides nothing
	probe := fmt.Sprintf(templates[0], lits[0])
	a, errA := bydbql.Prepare(probe)
	b, errB := bydbql.Prepare(probe)
	if errA != nil || errB != nil || !reflect.DeepEqual(a, b) {
		s.Inconclusive(fmt.Sprintf("the oracle cannot compare prepared statements (%v %v)", errA, errB))
		s.Done()
		return
	}
	for c := 0; c < verifh.Pick(300, 6000); c++ {
		r := verifh.Rand("c20cache", c)
		cache := newPreparedCache([]int{1, 2, 3, 8, 2000}[r.Intn(5)], []int{0, 0, 700, 1 << 20}[r.Intn(4)], nil)
		tmpl := templates[r.Intn(len(templates))]
		// a family: few literals, few spacings, so that the same and the look-alike statements recur
		fam := []string{}
		for i := 0; i < 2+r.Intn(4); i++ {
			fam = append(fam, spacings[r.Intn(len(spacings))](fmt.Sprintf(tmpl, lits[r.Intn(len(lits))])))
		}
		if r.Intn(3) == 0 {
			fam = append(fam, fmt.Sprintf(templates[r.Intn(len(templates))], lits[r.Intn(len(lits))]))
		}
		var hist []string
		results := map[string]int{}
		for op := 0; op < 6+r.Intn(20); op++ {
			q := fam[r.Intn(len(fam))]
			ps, res, err := cache.getOrPrepare(q)
			fresh, ferr := bydbql.Prepare(q)
			hist = append(hist, fmt.Sprintf("%q", q))
			results[res]++
			d := func(m map[string]any) map[string]any {
				h := hist
				if len(h) > 8 {
					h = h[len(h)-8:]
				}
				m["case"], m["last_statements"], m["cache_result"] = c, h, res
				return m
			}
			switch {
			case (err == nil) != (ferr == nil):
				s.Violation("c20:cache:error-differs-from-fresh-prepare", d(map[string]any{"cache_err": fmt.Sprint(err), "fresh_err": fmt.Sprint(ferr)}))
				continue
			case err != nil:
				continue
			}
			if !reflect.DeepEqual(ps, fresh) {
				s.Violation("c20:cache:statement-of-another-text-served", d(map[string]any{"statement": q}))
				continue
			}
			p := params(op)
			if ps.NumPlaceholders() == len(p) {
				b1, e1 := ps.Bind(p)
				b2, e2 := fresh.Bind(p)
				if (e1 == nil) != (e2 == nil) || (e1 == nil && !reflect.DeepEqual(b1, b2)) {
					s.Violation("c20:cache:bound-query-differs-from-fresh-prepare", d(map[string]any{"statement": q, "err_cached": fmt.Sprint(e1), "err_fresh": fmt.Sprint(e2)}))
				}
			}
			s.Count("c20.cache.lookups", 1)
		}
		for k, v := range results {
			s.Count("c20.cache.result."+map[bool]string{true: "disabled", false: k}[k == ""], int64(v))
		}
		s.Case(fmt.Sprint(hist), results["hit"] > 0 && len(fam) >= 2)
		if c < 2 {
			s.Sample(map[string]any{"family": fam, "results": results})
		}
	}
	s.Done()
}
