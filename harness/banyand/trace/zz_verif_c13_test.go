package trace

// C13 — a trace is stored, returned and sampled as a whole (trace engine, white-box).
//
// A real trace tsTable (all loops running; the automatic merger is kept idle by a large fan-in so that the
// harness decides what is merged) receives traces whose spans arrive in seeded order over several batches
// (= parts). Seeded subsets of file parts are merged through the merger's own entry point while a seeded
// sampler is registered for the table's group: none, keep-all, drop-by-id, failing, panicking. After every
// merge all parts are scanned and each trace's spans are compared with the bookkeeping:
//   - without an active sampler, or when the sampler fails or panics: every acknowledged span exactly once;
//   - with a dropping sampler: a trace is present with everything it had before the merge, or it is gone
//     entirely, and it may only be gone if the sampler's verdict for its id is drop AND no fragment of it was
//     outside the merged parts; spans are never duplicated.

import (
	"fmt"
	"math"
	"os"
	"path/filepath"
	"sort"
	"strings"
	"sync/atomic"
	"testing"
	"time"

	"github.com/apache/skywalking-banyandb/api/common"
	"github.com/apache/skywalking-banyandb/banyand/protector"
	"github.com/apache/skywalking-banyandb/pkg/fs"
	"github.com/apache/skywalking-banyandb/pkg/logger"
	pbv1 "github.com/apache/skywalking-banyandb/pkg/pb/v1"
	"github.com/apache/skywalking-banyandb/pkg/pipeline/sdk"
	"github.com/apache/skywalking-banyandb/pkg/run"
	"github.com/apache/skywalking-banyandb/pkg/timestamp"
	"github.com/apache/skywalking-banyandb/pkg/verifh"
)

type vSampler struct {
	drop  map[string]bool
	mode  string // keep drop fail panic
	calls atomic.Int64
	asked atomic.Int64
}

func (s *vSampler) Kind() sdk.Kind          { return sdk.KindSampler }
func (s *vSampler) Project() sdk.Projection { return sdk.Projection{SpanIDs: s.mode == "content"} }
func (s *vSampler) Close() error            { return nil }
func (s *vSampler) Decide(batch *sdk.TraceBatch) (sdk.Verdict, error) {
	s.calls.Add(1)
	s.asked.Add(int64(len(batch.Traces)))
	switch s.mode {
	case "fail":
		return sdk.Verdict{}, fmt.Errorf("verif: sampler is unwell")
	case "panic":
		panic("verif: sampler panics")
	}
	keep := make([]bool, len(batch.Traces))
	for i := range batch.Traces {
		if s.mode == "content" { // decides by what it is shown: a trace with fewer than 3 spans is dropped
			keep[i] = len(batch.Traces[i].SpanIDs) >= 3
			continue
		}
		keep[i] = s.mode == "keep" || !s.drop[batch.Traces[i].TraceID]
	}
	return sdk.Verdict{Keep: keep}, nil
}

var c13dirSeq atomic.Int64

// scanAll returns trace id -> sorted span ids over every part of the current snapshot, and per part the trace ids it holds.
func scanAll(tst *tsTable, tids []string) (map[string][]string, map[uint64]map[string]int, error) {
	out := map[string][]string{}
	where := map[uint64]map[string]int{}
	s := tst.currentSnapshot()
	if s == nil {
		return out, where, nil
	}
	defer s.decRef()
	sorted := append([]string(nil), tids...)
	sort.Strings(sorted)
	bma := generateBlockMetadataArray()
	defer releaseBlockMetadataArray(bma)
	tmp := generateBlock()
	defer releaseBlock(tmp)
	for _, pw := range s.parts {
		ti := &tstIter{}
		ti.init(bma, []*part{pw.p}, [][]string{sorted})
		for ti.nextBlock() {
			bc := generateBlockCursor()
			bc.init(pw.p, ti.piPool[ti.idx].curBlock, queryOptions{})
			if bc.loadData(tmp) {
				tid := bc.bm.traceID
				out[tid] = append(out[tid], bc.spanIDs...)
				if where[pw.ID()] == nil {
					where[pw.ID()] = map[string]int{}
				}
				where[pw.ID()][tid] += len(bc.spanIDs)
			}
			releaseBlockCursor(bc)
		}
		if err := ti.Error(); err != nil {
			return nil, nil, err
		}
	}
	for k := range out {
		sort.Strings(out[k])
	}
	return out, where, nil
}

func fileParts(tst *tsTable) (ids []uint64, mem int) {
	s := tst.currentSnapshot()
	if s == nil {
		return nil, 0
	}
	defer s.decRef()
	for _, pw := range s.parts {
		if pw.mp != nil {
			mem++
		} else if pw.p.partMetadata.TotalCount > 0 {
			ids = append(ids, pw.ID())
		}
	}
	sort.Slice(ids, func(a, b int) bool { return ids[a] < ids[b] })
	return ids, mem
}

func TestVerifC13(t *testing.T) {
	s := verifh.S()
	base := filepath.Join(verifh.Scratch(), "c13")
	modes := []string{"none", "keep", "drop", "drop", "drop", "fail", "panic", "content", "content"}
	for c := 0; c < verifh.Pick(60, 300); c++ {
		r := verifh.Rand("c13", c)
		group := fmt.Sprintf("verif-c13-%d", c)
		dir := filepath.Join(base, fmt.Sprintf("t%05d", c13dirSeq.Add(1)))
		os.RemoveAll(dir)
		os.MkdirAll(dir, 0o755)
		mode := modes[r.Intn(len(modes))]
		if c%5 == 1 {
			mode = "drop" // the directed envelope history below gets a fixed share of the cases
		}
		if c%10 == 0 || c%10 == 5 {
			mode = "content" // the big-trace scenarios (see below) get a fixed share of the cases
		}
		sampler := &vSampler{mode: mode, drop: map[string]bool{}}
		var deregister func()
		if mode != "none" {
			deregister = registerSampler(group, sampler)
		}
		// in a third of the cases memory parts linger (flush timeout 250 ms): a late fragment written right before a
		// merge is then still in memory, outside the merged parts, while the sampler decides
		lateFragments := r.Intn(3) == 0 && mode != "content" && c%5 != 1
		bigTrace := mode == "content" && (c%10 == 0 || c%10 == 5 || r.Intn(4) == 0) // one trace above the 2 MiB block budget
		// two layouts of the big trace: five 900 KiB spans over five parts (the output block overflows mid-trace), or
		// one span that fills a block by itself followed by small spans in the same batch
		headFull := bigTrace && (c%10 == 5 || (c%10 != 0 && r.Intn(2) == 0))
		if bigTrace && c%10 != 5 {
			testStageBudgetOverride = 1 // every trace is decided on its own; otherwise (c%10==5) the whole merge is one decision batch
		}
		flushTimeout := time.Duration(0)
		if lateFragments {
			flushTimeout = 250 * time.Millisecond
		}
		tst, err := newTSTable(fs.NewLocalFileSystem(), dir, common.Position{Database: group}, logger.GetLogger("verif"),
			timestamp.NewInclusiveTimeRange(time.Unix(-1, 0), time.Unix(1000, 0)),
			option{flushTimeout: flushTimeout, mergePolicy: newMergePolicy(100000, 1, run.Bytes(0)), protector: protector.Nop{}, decideTimeout: 5 * time.Second,
				decideTimeoutCircuitBreak: 1000, mergeGraceDefault: 10 * time.Second, nativePipelineEnabled: true}, nil)
		if err != nil {
			s.Violation("c13:open", map[string]any{"err": err.Error()})
			if deregister != nil {
				deregister()
			}
			continue
		}
		nTraces := 2 + r.Intn(6)
		traceBase := map[string]int64{} // the second around which all spans of the trace lie
		var tids []string
		for i := 0; i < nTraces; i++ {
			id := fmt.Sprintf("trace-%d-%d", c, i)
			tids = append(tids, id)
			traceBase[id] = int64(1 + r.Intn(20)) // traces live at the two ends of the table's time range, so that the
			if r.Intn(2) == 0 {                   // time ranges of parts differ by far more than the merge grace
				traceBase[id] = int64(870 + r.Intn(20))
			}
			if r.Intn(2) == 0 {
				sampler.drop[id] = true
			}
		}
		acked := map[string]map[string]int{} // trace -> span -> number of the batch that carried it (spans written and not removed by a sampling decision)
		batchNo := 0
		var hist []string
		spanSeq := 0
		bad := false
		d := func(m map[string]any) map[string]any {
			m["case"], m["sampler"], m["history"] = c, mode, hist
			var dl []string
			for id := range sampler.drop {
				dl = append(dl, id)
			}
			sort.Strings(dl)
			m["sampler_would_drop"] = dl
			return m
		}
		waitFlushed := func(_ int) bool {
			for i := 0; i < 20000; i++ {
				// the batch is in the snapshot when the write returns, so "no memory part left" means it was flushed
				// (a sampler may have emptied the flushed part: the number of non-empty file parts says nothing)
				if _, mem := fileParts(tst); mem == 0 {
					return true
				}
				time.Sleep(time.Millisecond)
			}
			return false
		}
		check := func(stage string, before map[string][]string, merged map[uint64]bool, whereBefore map[uint64]map[string]int) {
			got, _, err := scanAll(tst, tids)
			if err != nil {
				s.Violation("c13:scan-failed", d(map[string]any{"stage": stage, "err": err.Error()}))
				bad = true
				return
			}
			for _, id := range tids {
				var want []string
				for sp := range acked[id] {
					want = append(want, sp)
				}
				sort.Strings(want)
				g := got[id]
				for i := 1; i < len(g); i++ {
					if g[i] == g[i-1] {
						s.Violation("c13:span-returned-twice", d(map[string]any{"stage": stage, "trace": id, "span": g[i]}))
						bad = true
					}
				}
				if fmt.Sprint(g) == fmt.Sprint(want) {
					continue
				}
				if mode == "content" && merged != nil {
					shown, outside := 0, false
					for pid, set := range whereBefore {
						if merged[pid] {
							shown += set[id]
						} else if set[id] > 0 {
							outside = true
						}
					}
					if len(g) == 0 && !outside && shown > 0 && shown < 3 {
						s.Count("c13.traces_removed_entirely", 1)
						acked[id] = map[string]int{}
						continue
					}
					key := "c13:content-sampler:trace-partially-removed"
					if len(g) == 0 {
						key = "c13:content-sampler:trace-removed-although-the-whole-trace-earns-keep"
						if outside {
							key = "c13:trace-removed-although-a-fragment-was-outside-the-merge"
						}
					}
					s.Violation(key, d(map[string]any{"stage": stage, "trace": id, "spans_of_the_trace_in_the_merged_parts": shown, "fragment_outside": outside, "spans_expected": len(want), "spans_found": len(g)}))
					bad = true
					continue
				}
				dropping := mode == "drop"
				if merged != nil && dropping && len(g) == 0 && sampler.drop[id] {
					// gone entirely: allowed only if no fragment was outside the merged parts
					outside := false
					for pid, set := range whereBefore {
						if !merged[pid] && set[id] > 0 {
							outside = true
						}
					}
					if outside {
						s.Violation("c13:trace-removed-although-a-fragment-was-outside-the-merge", d(map[string]any{"stage": stage, "trace": id}))
						bad = true
					} else {
						s.Count("c13.traces_removed_entirely", 1)
						acked[id] = map[string]int{}
					}
					continue
				}
				if merged == nil && dropping && sampler.drop[id] && lateFragments {
					// the flusher merges lingering memory parts on its own and consults the sampler too: a removal
					// there takes everything the trace had at that moment, so what is left is exactly the spans of
					// the batches written after some point
					cut, okSuffix := -1, true
					gs := map[string]bool{}
					for _, sp := range g {
						gs[sp] = true
					}
					for sp, b := range acked[id] {
						if !gs[sp] && b > cut {
							cut = b
						}
					}
					for sp, b := range acked[id] {
						if (b > cut) != gs[sp] {
							okSuffix = false
						}
					}
					if okSuffix && len(g) <= len(want) {
						for sp, b := range acked[id] {
							if b <= cut {
								delete(acked[id], sp)
							}
						}
						s.Count("c13.traces_removed_entirely_by_a_background_memory_merge", 1)
						continue
					}
				}
				key := "c13:spans-lost-without-a-sampling-decision"
				switch {
				case len(g) > len(want):
					key = "c13:unknown-or-resurrected-spans"
				case dropping && len(g) > 0:
					key = "c13:trace-partially-removed"
				case dropping && !sampler.drop[id]:
					key = "c13:trace-removed-against-the-sampler-verdict"
				case mode == "fail" || mode == "panic":
					key = "c13:spans-lost-when-the-sampler-" + mode + "s"
				case mode == "keep":
					key = "c13:spans-lost-although-the-sampler-keeps-everything"
				}
				s.Violation(key, d(map[string]any{"stage": stage, "trace": id, "spans_expected": want, "spans_found": g, "spans_before_the_merge": before[id]}))
				bad = true
			}
		}
		rounds := 2 + r.Intn(4)
		if lateFragments {
			rounds = 2 + r.Intn(2)
		}
		writeBatch := func(wait bool) bool {
			ts := &traces{}
			for ti, id := range tids {
				big := bigTrace && ti == 0 && batchNo < 5
				if r.Intn(3) == 0 && !big {
					continue
				}
				for k := 0; k <= r.Intn(3); k++ {
					if big && k > 0 {
						break
					}
					spanSeq++
					sp := fmt.Sprintf("%s/s%04d", id, spanSeq)
					ts.traceIDs = append(ts.traceIDs, id)
					ts.timestamps = append(ts.timestamps, (traceBase[id]+int64(r.Intn(5)))*int64(time.Second)) // all spans of a trace lie within 5 s, far inside the merge grace
					ts.tags = append(ts.tags, []*tagValue{{tag: "t", valueType: pbv1.ValueTypeStr, value: []byte(fmt.Sprint("v", spanSeq%5))}})
					if big {
						size := 900 << 10
						if batchNo == 0 && headFull {
							size = maxUncompressedSpanSize // one span fills a block by itself; the small spans below follow in a block of their own
						}
						ts.spans = append(ts.spans, make([]byte, size))
						ts.spanIDs = append(ts.spanIDs, sp)
						if acked[id] == nil {
							acked[id] = map[string]int{}
						}
						acked[id][sp] = batchNo
						if batchNo == 0 && headFull {
							for x := 0; x < 2; x++ {
								spanSeq++
								tail := fmt.Sprintf("%s/s%04d", id, spanSeq)
								ts.traceIDs = append(ts.traceIDs, id)
								ts.timestamps = append(ts.timestamps, (traceBase[id]+int64(r.Intn(5)))*int64(time.Second))
								ts.tags = append(ts.tags, []*tagValue{{tag: "t", valueType: pbv1.ValueTypeStr, value: []byte("v")}})
								ts.spans = append(ts.spans, []byte("payload-"+tail))
								ts.spanIDs = append(ts.spanIDs, tail)
								acked[id][tail] = batchNo
							}
						}
						continue
					}
					ts.spans = append(ts.spans, []byte("payload-"+sp))
					ts.spanIDs = append(ts.spanIDs, sp)
					if acked[id] == nil {
						acked[id] = map[string]int{}
					}
					acked[id][sp] = batchNo
				}
			}
			batchNo++
			if len(ts.traceIDs) == 0 {
				return true
			}
			before, _ := fileParts(tst)
			tst.mustAddTraces(ts, nil)
			if !wait {
				hist = append(hist, fmt.Sprintf("late-write(%d spans, still in memory)", len(ts.traceIDs)))
				return true
			}
			hist = append(hist, fmt.Sprintf("write(%d spans)", len(ts.traceIDs)))
			if !waitFlushed(len(before) + 1) {
				s.Inconclusive(fmt.Sprintf("case %d: a batch was not flushed within the bound", c))
				return false
			}
			return true
		}
		// A directed history for the dropping sampler: an early merge whose later input spans a wider time range than
		// the earlier one, then a late fragment of a trace that lives at the top of that range arrives in a fresh
		// part, and a merge takes the fresh parts only. The earlier fragment sits in the merged part outside.
		if c%5 == 1 {
			rounds = 0
			put := func(items ...[2]any) uint64 { // (trace index, second)
				ts := &traces{}
				for _, it := range items {
					id := tids[it[0].(int)]
					spanSeq++
					sp := fmt.Sprintf("%s/s%04d", id, spanSeq)
					ts.traceIDs = append(ts.traceIDs, id)
					ts.timestamps = append(ts.timestamps, int64(it[1].(int))*int64(time.Second))
					ts.tags = append(ts.tags, []*tagValue{{tag: "t", valueType: pbv1.ValueTypeStr, value: []byte("v")}})
					ts.spans = append(ts.spans, []byte("payload-"+sp))
					ts.spanIDs = append(ts.spanIDs, sp)
					if acked[id] == nil {
						acked[id] = map[string]int{}
					}
					acked[id][sp] = batchNo
				}
				batchNo++
				tst.mustAddTraces(ts, nil)
				waitFlushed(0)
				ids, _ := fileParts(tst)
				hist = append(hist, fmt.Sprintf("write(part %d: %v)", ids[len(ids)-1], items))
				return ids[len(ids)-1]
			}
			mergeIDs := func(ids ...uint64) {
				merged := map[uint64]bool{}
				mergedIDs := map[uint64]struct{}{}
				for _, id := range ids {
					merged[id] = true
					mergedIDs[id] = struct{}{}
				}
				before, whereBefore, _ := scanAll(tst, tids)
				snp := tst.currentSnapshot()
				var selected []*partWrapper
				for _, pw := range snp.parts {
					if merged[pw.ID()] {
						pw.incRef()
						selected = append(selected, pw)
					}
				}
				snp.decRef()
				closeCh := make(chan struct{})
				_, mergeErr := tst.mergePartsThenSendIntroduction(snapshotCreatorMerger, selected, mergedIDs, tst.mergeCh, closeCh, mergeTypeFile, mergeLaneFast, nil)
				close(closeCh)
				for _, pw := range selected {
					pw.decRef()
				}
				hist = append(hist, fmt.Sprintf("merge(parts %v)", ids))
				s.Count("c13.merges", 1)
				if mergeErr != nil {
					s.Violation("c13:merge-error", d(map[string]any{"err": mergeErr.Error()}))
					bad = true
					return
				}
				check("after merge", before, merged, whereBefore)
			}
			top := 0                                                    // trace 0 lives at the top of the range and the sampler wants to drop it; trace 1 is kept
			sampler.drop[tids[0]], sampler.drop[tids[1]] = false, false // the sampler's rule changes after the first merge
			lowA, lowB, hi := 5+r.Intn(10), 1+r.Intn(3), 860+r.Intn(30)
			p1 := put([2]any{1, lowA}, [2]any{1, lowA + 2}) // narrow: a few seconds around lowA
			p2 := put([2]any{1, lowB}, [2]any{top, hi})     // wide: below p1's minimum and far above its maximum
			mergeIDs(p1, p2)                                // the kept trace keeps the merged part alive
			if !bad {
				sampler.drop[tids[0]] = true                        // from now on the sampler wants the top trace gone
				p3 := put([2]any{top, hi + 1}, [2]any{1, lowA + 1}) // the late fragment of the top trace
				p4 := put([2]any{1, lowA + 3})
				mergeIDs(p3, p4)
			}
			s.Count("c13.directed_envelope_histories", 1)
		}
		for round := 0; round < rounds && !bad; round++ {
			// a few batches: each holds spans of a seeded selection of traces (a trace is spread over batches)
			nb := 1 + r.Intn(4)
			if lateFragments {
				nb = 1 + r.Intn(2)
			}
			if bigTrace && round == 0 {
				nb = 5 + r.Intn(2)
			}
			for b := 0; b < nb; b++ {
				if !writeBatch(true) {
					bad = true
					break
				}
			}
			if bad {
				break
			}
			check("after writes", nil, nil, nil)
			if bad {
				break
			}
			ids, _ := fileParts(tst)
			if len(ids) < 2 {
				continue
			}
			r.Shuffle(len(ids), func(a, b int) { ids[a], ids[b] = ids[b], ids[a] })
			pick := ids[:2+r.Intn(len(ids)-1)]
			if bigTrace && round == 0 {
				pick = ids
			}
			merged := map[uint64]bool{}
			mergedIDs := map[uint64]struct{}{}
			for _, id := range pick {
				merged[id] = true
				mergedIDs[id] = struct{}{}
			}
			if lateFragments && r.Intn(3) > 0 {
				writeBatch(false)
				s.Count("c13.merges_with_a_late_fragment_in_memory", 1)
			}
			before, whereBefore, _ := scanAll(tst, tids)
			snp := tst.currentSnapshot()
			var selected []*partWrapper
			for _, pw := range snp.parts {
				if merged[pw.ID()] {
					pw.incRef()
					selected = append(selected, pw)
				}
			}
			snp.decRef()
			closeCh := make(chan struct{})
			_, mergeErr := tst.mergePartsThenSendIntroduction(snapshotCreatorMerger, selected, mergedIDs, tst.mergeCh, closeCh, mergeTypeFile, mergeLaneFast, nil)
			close(closeCh)
			for _, pw := range selected {
				pw.decRef()
			}
			hist = append(hist, fmt.Sprintf("merge(%d of %d file parts)", len(pick), len(ids)))
			s.Count("c13.merges", 1)
			if mergeErr != nil {
				s.Violation("c13:merge-error", d(map[string]any{"err": mergeErr.Error()}))
				bad = true
				break
			}
			check("after merge", before, merged, whereBefore)
		}
		s.Count("c13.sampler_calls", sampler.calls.Load())
		s.Count("c13.traces_put_to_the_sampler", sampler.asked.Load())
		s.Case(fmt.Sprint(mode, hist), mode != "none" && sampler.calls.Load() > 0 || mode == "none" && len(hist) > 2)
		if c < 3 {
			s.Sample(map[string]any{"sampler": mode, "history": hist, "sampler_calls": sampler.calls.Load()})
		}
		tst.Close()
		testStageBudgetOverride = 0
		if deregister != nil {
			deregister()
		}
		os.RemoveAll(dir)
	}
	_ = math.MaxInt64
	granuleBoundary(s, base)
	os.RemoveAll(base)
	s.Done()
}

// granuleBoundary: a trace above the block budget is stored as several blocks; with wide tag rows a primary block
// (granule) of the part's metadata holds only about ten blocks, so for some number of small traces sorting before it
// the granule boundary falls between the big trace's blocks. A lookup by trace id returns every acknowledged span
// whatever the position of that boundary (all positions 0..17 are tried).
func granuleBoundary(s *verifh.Sink, base string) {
	wide := func() []*tagValue {
		row := make([]*tagValue, 0, 100)
		for i := 0; i < 100; i++ {
			row = append(row, &tagValue{tag: fmt.Sprintf("tag-%03d-%s", i, strings.Repeat("x", 110)), valueType: pbv1.ValueTypeStr, value: []byte("v")})
		}
		return row
	}
	for before := 0; before < 18; before++ {
		dir := filepath.Join(base, fmt.Sprintf("g%05d", c13dirSeq.Add(1)))
		os.RemoveAll(dir)
		os.MkdirAll(dir, 0o755)
		tst, err := newTSTable(fs.NewLocalFileSystem(), dir, common.Position{Database: fmt.Sprintf("verif-c13-granule-%d", before)}, logger.GetLogger("verif"),
			timestamp.NewInclusiveTimeRange(time.Unix(-1, 0), time.Unix(1000, 0)),
			option{flushTimeout: 0, mergePolicy: newMergePolicy(100000, 1, run.Bytes(0)), protector: protector.Nop{}, decideTimeout: 5 * time.Second,
				decideTimeoutCircuitBreak: 1000, mergeGraceDefault: 10 * time.Second, nativePipelineEnabled: true}, nil)
		if err != nil {
			s.Violation("c13:open", map[string]any{"err": err.Error()})
			continue
		}
		ts := &traces{}
		want := map[string][]string{}
		add := func(tid, sp string, body []byte, at int64) {
			ts.traceIDs = append(ts.traceIDs, tid)
			ts.timestamps = append(ts.timestamps, at*int64(time.Second))
			ts.tags = append(ts.tags, wide())
			ts.spans = append(ts.spans, body)
			ts.spanIDs = append(ts.spanIDs, sp)
			want[tid] = append(want[tid], sp)
		}
		for i := 0; i < before; i++ {
			id := fmt.Sprintf("a-small-%04d", i)
			add(id, id+"/s0", []byte("payload"), 10)
		}
		const big = "m-big-trace"
		add(big, big+"/s0", make([]byte, maxUncompressedSpanSize), 20)
		add(big, big+"/s1", []byte("tail-1"), 21)
		add(big, big+"/s2", []byte("tail-2"), 22)
		for i := 0; i < 3; i++ {
			id := fmt.Sprintf("z-small-%04d", i)
			add(id, id+"/s0", []byte("payload"), 30)
		}
		tst.mustAddTraces(ts, nil)
		flushed := false
		for i := 0; i < 400 && !flushed; i++ {
			ids, mem := fileParts(tst)
			if flushed = mem == 0 && len(ids) > 0; !flushed {
				time.Sleep(25 * time.Millisecond)
			}
		}
		s.Case(fmt.Sprint("granule/", before), true)
		s.Count("c13.granule_boundary_positions", 1)
		if !flushed {
			s.Inconclusive(fmt.Sprintf("granule case %d: the batch was not flushed within the bound", before))
		} else {
			for tid, w := range want {
				got, _, err := scanAll(tst, []string{tid})
				sort.Strings(w)
				if err != nil || fmt.Sprint(got[tid]) != fmt.Sprint(w) {
					s.Violation("c13:lookup-by-trace-id:spans-missing", map[string]any{"small_traces_before_the_big_one": before, "trace": tid, "spans_expected": w, "spans_found": got[tid], "err": fmt.Sprint(err)})
					break
				}
			}
		}
		tst.Close()
		os.RemoveAll(dir)
	}
}
