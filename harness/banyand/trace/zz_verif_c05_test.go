package trace

// C05 (trace engine) — the core snapshot and the secondary-index (sidx) snapshot are published together.
// A real trace tsTable runs the liaison-side loops (introducer with sync, flusher); every written batch carries
// a sidx memory part, so each core part has exactly one sidx part of the same id. The harness plays the other
// actors: it merges seeded file-part subsets through the merger's entry point and, like the syncer after it has
// shipped parts, sends sync introductions that remove parts. Readers do what an ordered query does: they take
// the publication view (snapshotPublicationMu shared) and look at both snapshots; inside the view every core
// part must have its sidx part and the sidx must hold no part the core snapshot lacks — otherwise an ordered
// query could receive index entries whose spans are not visible (or miss spans that are). Runs under -race.

import (
	"context"
	"fmt"
	"os"
	"path/filepath"
	"sync"
	"sync/atomic"
	"testing"
	"time"

	"github.com/apache/skywalking-banyandb/api/common"
	modelv1 "github.com/apache/skywalking-banyandb/api/proto/banyandb/model/v1"
	"github.com/apache/skywalking-banyandb/banyand/internal/sidx"
	"github.com/apache/skywalking-banyandb/banyand/protector"
	"github.com/apache/skywalking-banyandb/pkg/fs"
	"github.com/apache/skywalking-banyandb/pkg/index"
	"github.com/apache/skywalking-banyandb/pkg/logger"
	pbv1 "github.com/apache/skywalking-banyandb/pkg/pb/v1"
	"github.com/apache/skywalking-banyandb/pkg/run"
	"github.com/apache/skywalking-banyandb/pkg/verifh"
	"github.com/apache/skywalking-banyandb/pkg/watcher"
)

func TestVerifC05Trace(t *testing.T) {
	s := verifh.S()
	base := filepath.Join(verifh.Scratch(), "c05trace")
	const idx = "vidx"
	for c := 0; c < verifh.Pick(4, 60); c++ {
		r := verifh.Rand("c05trace", c)
		dir := filepath.Join(base, fmt.Sprintf("t%04d", c))
		os.RemoveAll(dir)
		os.MkdirAll(dir, 0o755)
		tst, epoch := initTSTable(fs.NewLocalFileSystem(), dir, common.Position{Database: fmt.Sprint("verif-c05t-", c)}, logger.GetLogger("verif"),
			option{flushTimeout: 0, mergePolicy: newMergePolicy(100000, 1, run.Bytes(0)), protector: protector.Nop{}, decideTimeout: time.Second, decideTimeoutCircuitBreak: 3}, nil)
		tst.loopCloser = run.NewCloser(1 + 2)
		tst.introductions = make(chan *introduction)
		flushCh := make(chan *flusherIntroduction)
		syncCh := make(chan *syncIntroduction)
		mergeCh := make(chan *mergerIntroduction)
		tst.mergeCh = mergeCh
		introducerWatcher := make(watcher.Channel, 1)
		flusherWatcher := make(watcher.Channel, 1)
		go tst.introducerLoopWithSync(flushCh, mergeCh, syncCh, introducerWatcher, epoch+1)
		go tst.flusherLoop(flushCh, mergeCh, introducerWatcher, flusherWatcher, epoch)
		sx := tst.mustGetOrCreateSidx(idx)

		var pkMu sync.Mutex
		partKeys := map[uint64]map[int64]bool{} // part id -> index keys of the spans it holds (recorded before the part can be seen)
		var stop atomic.Bool
		var views, changed, indexQueries atomic.Int64
		var firstBad atomic.Value
		var wg sync.WaitGroup
		states := sync.Map{}
		for g := 0; g < 4; g++ {
			wg.Add(1)
			go func(g int) {
				defer wg.Done()
				for !stop.Load() && firstBad.Load() == nil {
					release := acquireSnapshotPublicationView([]*tsTable{tst})
					snp := tst.currentSnapshot()
					if snp == nil {
						release()
						continue
					}
					if g == 0 {
						// what an ordered query does inside the view: read the index, then rely on the core snapshot.
						// Every index entry must belong to a visible part and every visible span must be indexed.
						want := map[int64]bool{}
						pkMu.Lock()
						for _, pw := range snp.parts {
							for k := range partKeys[pw.ID()] {
								want[k] = true
							}
						}
						pkMu.Unlock()
						qctx, qcancel := context.WithTimeout(context.Background(), 30*time.Second)
						rs, qerr := sx.QuerySync(qctx, sidx.QueryRequest{SeriesIDs: []common.SeriesID{1, 2, 3}, Order: &index.OrderBy{Sort: modelv1.Sort_SORT_ASC}})
						qcancel()
						got := map[int64]bool{}
						for _, rr := range rs {
							if rr != nil {
								if rr.Error != nil && qerr == nil {
									qerr = rr.Error
								}
								for _, k := range rr.Keys {
									got[k] = true
								}
							}
						}
						indexQueries.Add(1)
						var lost, ghost []int64
						for k := range want {
							if !got[k] {
								lost = append(lost, k)
							}
						}
						for k := range got {
							if !want[k] {
								ghost = append(ghost, k)
							}
						}
						switch {
						case qerr != nil:
							firstBad.CompareAndSwap(nil, "index query failed inside the view: "+qerr.Error())
						case len(lost)+len(ghost) > 0:
							firstBad.CompareAndSwap(nil, fmt.Sprintf("index query inside the view: %d visible spans have no index entry (e.g. %v), %d index entries point at spans that are not visible (e.g. %v)",
								len(lost), lost[:min(len(lost), 4)], len(ghost), ghost[:min(len(ghost), 4)]))
						}
					}
					// what an ordered query can see of both sides: the file parts of the core snapshot and the file
					// parts the index snapshot lists (asked for every id ever handed out)
					core := map[uint64]bool{}
					sig := ""
					for _, pw := range snp.parts {
						if pw.mp == nil {
							core[pw.ID()] = true
							sig += fmt.Sprint(pw.ID(), "f,")
						} else {
							sig += fmt.Sprint(pw.ID(), "m,")
						}
					}
					all := map[uint64]struct{}{}
					for id := uint64(1); id <= atomic.LoadUint64(&tst.curPartID); id++ {
						all[id] = struct{}{}
					}
					inSidx := sx.PartPaths(all)
					snp.decRef()
					release()
					views.Add(1)
					if _, loaded := states.LoadOrStore(sig, true); !loaded {
						changed.Add(1)
					}
					var onlyCore, onlyIndex []uint64
					for id := range core {
						if _, ok := inSidx[id]; !ok {
							onlyCore = append(onlyCore, id)
						}
					}
					for id := range inSidx {
						if !core[id] {
							onlyIndex = append(onlyIndex, id)
						}
					}
					if len(onlyCore)+len(onlyIndex) > 0 {
						firstBad.CompareAndSwap(nil, fmt.Sprintf("core snapshot [%s]: file parts without index part %v, index parts without core part %v", sig, onlyCore, onlyIndex))
					}
					time.Sleep(20 * time.Microsecond)
				}
			}(g)
		}
		// the actors
		spanSeq := 0
		var opLog []string
		coreSig := func() string {
			snp := tst.currentSnapshot()
			if snp == nil {
				return "nil"
			}
			defer snp.decRef()
			sg := fmt.Sprint("e", snp.epoch, ":")
			for _, pw := range snp.parts {
				sg += fmt.Sprint(pw.ID(), map[bool]string{true: "m", false: "f"}[pw.mp != nil], ",")
			}
			st, _ := sx.Stats(context.Background())
			return fmt.Sprint(sg, " idx=", st.PartCount)
		}
		nOps := 60 + r.Intn(80)
		var syncs, merges, writes int
		for op := 0; op < nOps && firstBad.Load() == nil; op++ {
			switch k := r.Intn(10); {
			case k < 6: // a batch with its index part
				ts := &traces{}
				var reqs []sidx.WriteRequest
				for n := 0; n <= r.Intn(5); n++ {
					spanSeq++
					tid := fmt.Sprintf("t%d-%d", c, r.Intn(12))
					ts.traceIDs = append(ts.traceIDs, tid)
					ts.timestamps = append(ts.timestamps, int64(1+spanSeq))
					ts.tags = append(ts.tags, []*tagValue{{tag: "t", valueType: pbv1.ValueTypeStr, value: []byte("v")}})
					ts.spans = append(ts.spans, []byte(fmt.Sprint("span", spanSeq)))
					ts.spanIDs = append(ts.spanIDs, fmt.Sprint("s", spanSeq))
					reqs = append(reqs, sidx.WriteRequest{SeriesID: common.SeriesID(1 + spanSeq%3), Key: int64(spanSeq), Data: []byte(fmt.Sprint(tid, "#", spanSeq))}) // unique payloads: the index de-duplicates equal payloads within a block
				}
				minTS, maxTS := int64(0), int64(1<<40)
				mp, err := sx.ConvertToMemPart(reqs, 0, &minTS, &maxTS)
				if err != nil {
					firstBad.CompareAndSwap(nil, "building the index part failed: "+err.Error())
					break
				}
				keys := map[int64]bool{}
				for _, rq := range reqs {
					keys[rq.Key] = true
				}
				pkMu.Lock()
				partKeys[atomic.LoadUint64(&tst.curPartID)+1] = keys // this goroutine is the only one handing out part ids
				pkMu.Unlock()
				tst.mustAddTraces(ts, map[string]*sidx.MemPart{idx: mp})
				writes++
				opLog = append(opLog, "write -> "+coreSig())
				if r.Intn(3) > 0 { // usually let the flusher catch up, so that file parts exist to be merged and synced
					for i := 0; i < 5000; i++ {
						if _, mem := fileParts(tst); mem == 0 {
							break
						}
						time.Sleep(200 * time.Microsecond)
					}
				}
			case k < 8: // the syncer has shipped some file parts: they leave both snapshots together
				ids, _ := fileParts(tst)
				if len(ids) == 0 {
					continue
				}
				r.Shuffle(len(ids), func(a, b int) { ids[a], ids[b] = ids[b], ids[a] })
				si := generateSyncIntroduction()
				for _, id := range ids[:1+r.Intn(len(ids))] {
					si.synced[id] = struct{}{}
				}
				si.applied = make(chan struct{})
				syncCh <- si
				<-si.applied
				opLog = append(opLog, fmt.Sprint("sync ", si.synced, " -> ", coreSig()))
				releaseSyncIntroduction(si)
				syncs++
			default: // merge a subset of the file parts
				ids, _ := fileParts(tst)
				if len(ids) < 2 {
					continue
				}
				r.Shuffle(len(ids), func(a, b int) { ids[a], ids[b] = ids[b], ids[a] })
				pick := map[uint64]struct{}{}
				for _, id := range ids[:2+r.Intn(len(ids)-1)] {
					pick[id] = struct{}{}
				}
				snp := tst.currentSnapshot()
				var selected []*partWrapper
				for _, pw := range snp.parts {
					if _, ok := pick[pw.ID()]; ok && pw.mp == nil {
						pw.incRef()
						selected = append(selected, pw)
					}
				}
				snp.decRef()
				if len(selected) >= 2 {
					union := map[int64]bool{}
					pkMu.Lock()
					for _, pw := range selected {
						for k := range partKeys[pw.ID()] {
							union[k] = true
						}
					}
					partKeys[atomic.LoadUint64(&tst.curPartID)+1] = union
					pkMu.Unlock()
					closeCh := make(chan struct{})
					_, err := tst.mergePartsThenSendIntroduction(snapshotCreatorMerger, selected, pick, mergeCh, closeCh, mergeTypeFile, mergeLaneFast, nil)
					close(closeCh)
					if err != nil {
						firstBad.CompareAndSwap(nil, "merge failed: "+err.Error())
					}
					merges++
				}
				for _, pw := range selected {
					pw.decRef()
				}
			}
		}
		stop.Store(true)
		wg.Wait()
		for i := 0; i < 20000; i++ { // let the flusher finish what it is doing before the table is closed
			if _, mem := fileParts(tst); mem == 0 {
				break
			}
			time.Sleep(time.Millisecond)
		}
		if fb := firstBad.Load(); fb != nil {
			if len(opLog) > 12 {
				opLog = opLog[len(opLog)-12:]
			}
			s.Violation("c05:trace:core-and-index-snapshots-disagree-inside-a-publication-view", map[string]any{"case": c, "what": fb.(string), "writes": writes, "sync_introductions": syncs, "merges": merges, "last_operations": opLog})
		}
		s.Count("c05.trace.publication_views_inspected", views.Load())
		s.Count("c05.trace.index_queries_inside_a_view", indexQueries.Load())
		s.Count("c05.trace.distinct_snapshot_states_seen", changed.Load())
		s.Count("c05.trace.sync_introductions", int64(syncs))
		s.Count("c05.trace.merges", int64(merges))
		s.Case(fmt.Sprintf("c05trace/%d/%d/%d", c, syncs, merges), syncs > 3 && merges > 0 && changed.Load() > 10)
		if c == 0 {
			s.Sample(map[string]any{"writes": writes, "sync_introductions": syncs, "merges": merges, "publication_views": views.Load(), "distinct_states": changed.Load()})
		}
		tst.Close()
		os.RemoveAll(dir)
	}
	os.RemoveAll(base)
	s.Done()
}
