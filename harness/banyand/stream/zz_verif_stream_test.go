package stream

// Stream engine white-box unit, shared by C03 (flush/merge never change what a scan returns) and C05
// (a pinned snapshot is one consistent view while maintenance runs).
//
// The stream engine does not de-duplicate, so every element written must come back exactly once.
//   - step: write-queue flush windows (memory parts tagged with segment ids), the flusher's mergeMemParts,
//     flush, merges of seeded subsets of file parts; after every operation: full block scan == model
//     (multiset of element ids with their uid tag), Σ part counts == elements written, part dirs on disk.
//   - live: real introducer/flusher/merger loops with a non-zero flush timeout, 2 writers over 3 segment
//     ids, 4 readers pinning snapshots; each pinned snapshot: no element twice, everything acknowledged
//     before the pin present, batches all-or-nothing, files present after the scan. Runs under -race.

import (
	"fmt"
	"math"
	"math/rand"
	"os"
	"path/filepath"
	"sort"
	"sync"
	"sync/atomic"
	"testing"
	"time"

	"github.com/apache/skywalking-banyandb/api/common"
	"github.com/apache/skywalking-banyandb/banyand/internal/storage"
	"github.com/apache/skywalking-banyandb/banyand/protector"
	"github.com/apache/skywalking-banyandb/pkg/convert"
	"github.com/apache/skywalking-banyandb/pkg/fs"
	"github.com/apache/skywalking-banyandb/pkg/logger"
	pbv1 "github.com/apache/skywalking-banyandb/pkg/pb/v1"
	"github.com/apache/skywalking-banyandb/pkg/query/model"
	"github.com/apache/skywalking-banyandb/pkg/run"
	"github.com/apache/skywalking-banyandb/pkg/timestamp"
	"github.com/apache/skywalking-banyandb/pkg/verifh"
	"github.com/apache/skywalking-banyandb/pkg/watcher"
)

type vel struct {
	sid   common.SeriesID
	ts    int64
	eid   uint64
	uid   int64
	batch int
}

var dirSeq atomic.Int64

func freshDir(base string) string {
	d := filepath.Join(base, fmt.Sprintf("t%06d", dirSeq.Add(1)))
	os.RemoveAll(d)
	os.MkdirAll(d, 0o755)
	return d
}

func genEls(r *rand.Rand, batch, n, tsDomain int, uid *int64) []vel {
	out := make([]vel, n)
	for i := range out {
		*uid++
		out[i] = vel{sid: common.SeriesID(1 + r.Intn(3)), ts: int64(1 + r.Intn(tsDomain)), eid: uint64(*uid) * 2654435761, uid: *uid, batch: batch}
	}
	return out
}

func toElements(els []vel) *elements {
	es := &elements{}
	for _, e := range els {
		es.seriesIDs = append(es.seriesIDs, e.sid)
		es.timestamps = append(es.timestamps, e.ts)
		es.elementIDs = append(es.elementIDs, e.eid)
		es.tagFamilies = append(es.tagFamilies, []tagValues{{tag: "tf", values: []*tagValue{
			{tag: "uid", valueType: pbv1.ValueTypeInt64, value: convert.Int64ToBytes(e.uid)},
			{tag: "s", valueType: pbv1.ValueTypeStr, value: []byte(fmt.Sprint("s", e.uid%7))},
		}}})
	}
	return es
}

type sFacts struct {
	sig     string
	rows    uint64
	mem     int
	dupIDs  bool
	fileIDs []uint64
}

func factsOf(s *snapshot) sFacts {
	var f sFacts
	seen := map[uint64]bool{}
	for _, pw := range s.parts {
		if seen[pw.ID()] {
			f.dupIDs = true
		}
		seen[pw.ID()] = true
		if pw.mp != nil {
			f.mem++
			f.rows += pw.mp.partMetadata.TotalCount
		} else {
			f.rows += pw.p.partMetadata.TotalCount
			f.fileIDs = append(f.fileIDs, pw.ID())
		}
		f.sig += fmt.Sprintf("%d%s,", pw.ID(), map[bool]string{true: "m", false: "f"}[pw.mp != nil])
	}
	return f
}

func diskParts(root string) map[uint64]bool {
	out := map[uint64]bool{}
	ents, _ := os.ReadDir(root)
	for _, e := range ents {
		if !e.IsDir() || len(e.Name()) != 16 {
			continue
		}
		if id, err := parseEpoch(e.Name()); err == nil {
			out[id] = true
		}
	}
	return out
}

// manifestParts returns the part ids named by the newest snapshot manifest on disk: what a restart will load.
// (A table's background loops may still publish between the harness' last look at the snapshot and Close.)
func manifestParts(fileSystem fs.FileSystem, dir string) (map[uint64]bool, bool) {
	var newest uint64
	found := false
	ents, _ := os.ReadDir(dir)
	for _, e := range ents {
		if id, err := parseSnapshot(e.Name()); err == nil && (!found || id > newest) {
			newest, found = id, true
		}
	}
	if !found {
		return nil, false
	}
	names, err := storage.ReadSnapshotPartNames(fileSystem, filepath.Join(dir, snapshotName(newest)))
	if err != nil {
		return nil, false
	}
	keep := map[uint64]bool{}
	for _, n := range names {
		if id, err := parseEpoch(n); err == nil {
			keep[id] = true
		}
	}
	return keep, true
}

// settledDisk polls (bounded) until the part directories equal keep: the stream engine removes the files of a
// replaced part in a goroutine of its own, so the removal may trail Close by a moment.
func settledDisk(dir string, keep map[uint64]bool) (left []uint64, missing []uint64) {
	for i := 0; i < 400; i++ {
		left, missing = left[:0], missing[:0]
		disk := diskParts(dir)
		for id := range disk {
			if !keep[id] {
				left = append(left, id)
			}
		}
		for id := range keep {
			if !disk[id] {
				missing = append(missing, id)
			}
		}
		if len(left) == 0 || len(missing) > 0 {
			break
		}
		time.Sleep(5 * time.Millisecond)
	}
	sort.Slice(left, func(a, b int) bool { return left[a] < left[b] })
	return left, missing
}

type sgot struct {
	sid common.SeriesID
	ts  int64
	eid uint64
	uid int64
}

// scanSnapshot reads every element of the snapshot's parts through the engine's block iterator and cursor.
func scanSnapshot(s *snapshot) (out []sgot, err error) {
	defer func() {
		if r := recover(); r != nil {
			err = fmt.Errorf("panic during scan: %v", r)
		}
	}()
	bma := generateBlockMetadataArray()
	defer releaseBlockMetadataArray(bma)
	pp, _ := s.getParts(nil, math.MinInt64, math.MaxInt64)
	if len(pp) == 0 {
		return nil, nil
	}
	qo := queryOptions{minTimestamp: math.MinInt64, maxTimestamp: math.MaxInt64, schemaTagTypes: map[string]pbv1.ValueType{"uid": pbv1.ValueTypeInt64, "s": pbv1.ValueTypeStr}}
	qo.TagProjection = []model.TagProjection{{Family: "tf", Names: []string{"uid"}}}
	ti := &tstIter{}
	ti.init(bma, pp, []common.SeriesID{1, 2, 3}, math.MinInt64, math.MaxInt64, nil)
	tmp := generateBlock()
	defer releaseBlock(tmp)
	for ti.nextBlock() {
		ph := ti.piHeap[0]
		bc := generateBlockCursor()
		bc.init(ph.p, ph.curBlock, qo)
		if bc.loadData(tmp) {
			for i := range bc.timestamps {
				g := sgot{sid: bc.bm.seriesID, ts: bc.timestamps[i], eid: bc.elementIDs[i], uid: -1}
				for _, tf := range bc.tagFamilies {
					for _, tg := range tf.tags {
						if tg.name == "uid" && i < len(tg.values) && len(tg.values[i]) == 8 {
							g.uid = convert.BytesToInt64(tg.values[i])
						}
					}
				}
				out = append(out, g)
			}
		}
		releaseBlockCursor(bc)
	}
	return out, ti.Error()
}

// compareExact: every written element exactly once with its own key and uid.
func compareExact(rows []sgot, written []vel) string {
	want := map[int64]vel{}
	for _, e := range written {
		want[e.uid] = e
	}
	seen := map[int64]int{}
	for _, g := range rows {
		w, ok := want[g.uid]
		if !ok {
			return fmt.Sprintf("element with uid %d returned but never written (series %d ts %d)", g.uid, g.sid, g.ts)
		}
		if w.sid != g.sid || w.ts != g.ts || w.eid != g.eid {
			return fmt.Sprintf("uid %d: written as series %d ts %d id %d, read as series %d ts %d id %d", g.uid, w.sid, w.ts, w.eid, g.sid, g.ts, g.eid)
		}
		seen[g.uid]++
		if seen[g.uid] > 1 {
			return fmt.Sprintf("element uid %d (series %d ts %d) returned %d times", g.uid, g.sid, g.ts, seen[g.uid])
		}
	}
	for u, w := range want {
		if seen[u] == 0 {
			return fmt.Sprintf("element uid %d (series %d ts %d, batch %d) missing", u, w.sid, w.ts, w.batch)
		}
	}
	return ""
}

type sStep struct {
	tst     *tsTable
	flushCh chan *flusherIntroduction
	mergeCh chan *mergerIntroduction
}

func openStep(root string, fileSystem fs.FileSystem) (*sStep, error) {
	tst, epoch, err := initTSTable(fileSystem, root, common.Position{}, logger.GetLogger("verif"),
		option{flushTimeout: time.Millisecond, mergePolicy: newDefaultMergePolicyForTesting(), protector: protector.Nop{}}, nil, false)
	if err != nil {
		return nil, err
	}
	st := &sStep{tst: tst, flushCh: make(chan *flusherIntroduction), mergeCh: make(chan *mergerIntroduction)}
	tst.loopCloser = run.NewCloser(1 + 1)
	tst.introductions = make(chan *introduction)
	go tst.introducerLoop(st.flushCh, st.mergeCh, make(watcher.Channel, 1), epoch+1)
	return st, nil
}

func (st *sStep) flush() {
	s := st.tst.currentSnapshot()
	if s == nil {
		return
	}
	defer s.decRef()
	for _, pw := range s.parts {
		if pw.mp != nil {
			st.tst.flush(s, st.flushCh)
			return
		}
	}
}

func (st *sStep) merge(ids []uint64) error {
	s := st.tst.currentSnapshot()
	if s == nil {
		return fmt.Errorf("no snapshot")
	}
	defer s.decRef()
	want := map[uint64]struct{}{}
	for _, id := range ids {
		want[id] = struct{}{}
	}
	var parts []*partWrapper
	for _, pw := range s.parts {
		if _, ok := want[pw.ID()]; ok {
			parts = append(parts, pw)
		}
	}
	closeCh := make(chan struct{})
	defer close(closeCh)
	_, err := st.tst.mergePartsThenSendIntroduction(snapshotCreatorMerger, parts, want, st.mergeCh, closeCh, "file")
	return err
}

func streamStep(s *verifh.Sink, base string, fileSystem fs.FileSystem, uid *int64) {
	segs := []int64{1_000_000_000, 2_000_000_000, 3_000_000_000}
	for c := 0; c < verifh.Pick(150, 4000); c++ {
		r := verifh.Rand("streamstep", c)
		dir := freshDir(base)
		st, err := openStep(dir, fileSystem)
		if err != nil {
			s.Violation("stream:step:open", map[string]any{"err": err.Error()})
			continue
		}
		var written []vel
		var hist []string
		multi, maint := false, 0
		bad := func(kind string, d map[string]any) {
			d["case"], d["history"] = c, hist
			s.Violation("stream:step:"+kind, d)
		}
		judge := func(op string) bool {
			snp := st.tst.currentSnapshot()
			if snp == nil {
				if len(written) > 0 {
					bad("snapshot-vanished", map[string]any{"after": op})
					return false
				}
				return true
			}
			defer snp.decRef()
			f := factsOf(snp)
			if f.dupIDs {
				bad("part-listed-twice", map[string]any{"after": op, "snapshot": f.sig})
				return false
			}
			if f.rows != uint64(len(written)) {
				kind := "snapshot-holds-merged-part-and-its-inputs"
				if f.rows < uint64(len(written)) {
					kind = "snapshot-lost-parts"
				}
				bad(kind, map[string]any{"after": op, "elements_in_snapshot_parts": f.rows, "elements_written": len(written), "snapshot": f.sig})
				return false
			}
			disk := diskParts(dir)
			for _, id := range f.fileIDs {
				if !disk[id] {
					bad("file-part-of-snapshot-missing-on-disk", map[string]any{"after": op, "part": id})
					return false
				}
			}
			rows, err := scanSnapshot(snp)
			if err != nil {
				bad("scan-failed", map[string]any{"after": op, "err": err.Error()})
				return false
			}
			if d := compareExact(rows, written); d != "" {
				bad("scan-differs-from-model", map[string]any{"after": op, "discrepancy": d, "snapshot": f.sig})
				return false
			}
			return true
		}
		ok := true
		for cy := 0; cy < 1+r.Intn(4) && ok; cy++ {
			nw, kinds, perm := 2+r.Intn(7), 1+r.Intn(3), r.Perm(3)
			runs := map[int64]int{}
			for w := 0; w < nw; w++ {
				seg := segs[perm[r.Intn(kinds)]]
				if r.Intn(12) == 0 {
					seg = 0
				}
				els := genEls(r, len(hist), 1+r.Intn(12), 40, uid)
				st.tst.mustAddElementsWithSegmentID(toElements(els), seg, nil)
				written = append(written, els...)
				runs[seg]++
				hist = append(hist, fmt.Sprintf("write(seg=%d,%d els)", seg/1_000_000_000, len(els)))
			}
			multi = multi || len(runs) >= 2
			if ok = judge("writes"); !ok {
				break
			}
			snp := st.tst.currentSnapshot()
			merged, err := st.tst.mergeMemParts(snp, st.mergeCh)
			snp.decRef()
			hist = append(hist, fmt.Sprintf("mergeMemParts=%v", merged))
			if err != nil {
				bad("merge-mem-parts-error", map[string]any{"err": err.Error()})
				ok = false
				break
			}
			maint++
			s.Count("stream.step.mem_merges", 1)
			if ok = judge("mergeMemParts"); !ok {
				break
			}
			if r.Intn(3) > 0 {
				st.flush()
				hist = append(hist, "flush")
				maint++
				if ok = judge("flush"); !ok {
					break
				}
			}
			if r.Intn(2) == 0 {
				snp := st.tst.currentSnapshot()
				fids := factsOf(snp).fileIDs
				snp.decRef()
				if len(fids) >= 2 {
					r.Shuffle(len(fids), func(a, b int) { fids[a], fids[b] = fids[b], fids[a] })
					pick := fids[:2+r.Intn(len(fids)-1)]
					if err := st.merge(pick); err != nil {
						bad("file-merge-error", map[string]any{"err": err.Error()})
						ok = false
						break
					}
					hist = append(hist, fmt.Sprintf("merge(%d file parts)", len(pick)))
					s.Count("stream.step.file_merges", 1)
					if ok = judge("merge"); !ok {
						break
					}
				}
			}
		}
		if ok {
			st.flush()
			ok = judge("final flush")
		}
		keep := map[uint64]bool{}
		if snp := st.tst.currentSnapshot(); snp != nil {
			for _, id := range factsOf(snp).fileIDs {
				keep[id] = true
			}
			snp.decRef()
		}
		st.tst.Close()
		if ok {
			left, missing := settledDisk(dir, keep)
			if len(missing) > 0 {
				bad("live-part-deleted", map[string]any{"parts": missing})
			}
			if len(left) > 0 {
				s.Count("stream.step.replaced_parts_still_on_disk_2s_after_close", 1)
			}
			// reopen: the persisted state is the same data
			st2, err := openStep(dir, fileSystem)
			if err != nil {
				bad("reopen-failed", map[string]any{"err": err.Error()})
			} else {
				if snp := st2.tst.currentSnapshot(); snp != nil {
					rows, err := scanSnapshot(snp)
					snp.decRef()
					if err != nil {
						bad("scan-after-reopen-failed", map[string]any{"err": err.Error()})
					} else if d := compareExact(rows, written); d != "" {
						bad("scan-after-reopen-differs-from-model", map[string]any{"discrepancy": d})
					}
				} else if len(written) > 0 {
					bad("reopened-table-empty", map[string]any{})
				}
				st2.tst.Close()
				if left, _ := settledDisk(dir, keep); len(left) > 0 {
					bad("replaced-part-survives-restart", map[string]any{"parts": left})
				}
			}
		}
		s.Case(fmt.Sprint("step/", hist), multi && maint >= 2)
		if c < 2 {
			s.Sample(map[string]any{"mode": "step", "history": hist})
		}
		os.RemoveAll(dir)
	}
}

func streamLive(s *verifh.Sink, base string, fileSystem fs.FileSystem, uid *int64) {
	segs := []int64{1_000_000_000, 2_000_000_000, 3_000_000_000}
	for c := 0; c < verifh.Pick(4, 60); c++ {
		r := verifh.Rand("streamlive", c)
		dir := freshDir(base)
		tst, err := newTSTable(fileSystem, dir, common.Position{}, logger.GetLogger("verif"), timestamp.TimeRange{},
			option{flushTimeout: time.Duration(1+r.Intn(4)) * time.Millisecond, elementIndexFlushTimeout: time.Second, mergePolicy: newMergePolicy(2+r.Intn(3), 1, 1<<40), protector: protector.Nop{}}, nil)
		if err != nil {
			s.Violation("stream:live:open", map[string]any{"err": err.Error()})
			continue
		}
		var mu sync.Mutex
		var acked []vel
		batchOf := map[int64]int{}
		sizes := map[int]int{}
		var stop atomic.Bool
		var scans, during, pinnedStates atomic.Int64
		var firstBad atomic.Value
		fail := func(kind string, d map[string]any) {
			d["case"] = c
			firstBad.CompareAndSwap(nil, [2]any{kind, d})
		}
		states := sync.Map{}
		var wg sync.WaitGroup
		for g := 0; g < 4; g++ {
			wg.Add(1)
			go func(g int) {
				defer wg.Done()
				rr := rand.New(rand.NewSource(int64(c*10 + g)))
				for !stop.Load() && firstBad.Load() == nil {
					mu.Lock()
					before := append([]vel(nil), acked...)
					mu.Unlock()
					e0 := tst.currentEpoch()
					snp := tst.currentSnapshot()
					if snp == nil {
						continue
					}
					f := factsOf(snp)
					if _, loaded := states.LoadOrStore(f.sig, true); !loaded {
						pinnedStates.Add(1)
					}
					if rr.Intn(3) == 0 {
						time.Sleep(time.Duration(rr.Intn(3000)) * time.Microsecond)
					}
					rows, err := scanSnapshot(snp)
					var missing []uint64
					disk := diskParts(dir)
					for _, id := range f.fileIDs {
						if !disk[id] {
							missing = append(missing, id)
						}
					}
					snp.decRef()
					scans.Add(1)
					if tst.currentEpoch() != e0 {
						during.Add(1)
					}
					switch {
					case err != nil:
						fail("query-failed", map[string]any{"err": err.Error(), "snapshot": f.sig})
					case len(missing) > 0:
						fail("part-deleted-while-a-reader-pins-it", map[string]any{"parts": missing, "snapshot": f.sig})
					case f.dupIDs:
						fail("part-listed-twice", map[string]any{"snapshot": f.sig})
					case uint64(len(rows)) != f.rows:
						fail("rows-returned-differ-from-rows-in-pinned-parts", map[string]any{"returned": len(rows), "in_parts": f.rows, "snapshot": f.sig})
					default:
						seenU := map[int64]int{}
						for _, g := range rows {
							seenU[g.uid]++
							if seenU[g.uid] > 1 {
								fail("element-returned-twice", map[string]any{"uid": g.uid, "series": g.sid, "ts": g.ts, "snapshot": f.sig})
							}
						}
						for _, e := range before {
							if seenU[e.uid] == 0 {
								fail("acknowledged-element-missing", map[string]any{"uid": e.uid, "batch": e.batch, "snapshot": f.sig})
								break
							}
						}
						mu.Lock()
						perBatch := map[int]int{}
						unknown := int64(-1)
						for u := range seenU {
							b, ok := batchOf[u]
							if !ok {
								unknown = u
							}
							perBatch[b]++
						}
						for b, n := range perBatch {
							if n != sizes[b] && unknown < 0 {
								fail("batch-partially-visible", map[string]any{"batch": b, "visible": n, "size": sizes[b], "snapshot": f.sig})
								break
							}
						}
						mu.Unlock()
						if unknown >= 0 {
							fail("element-nobody-wrote", map[string]any{"uid": unknown})
						}
					}
				}
			}(g)
		}
		nBatches := 40 + r.Intn(60)
		var wwg sync.WaitGroup
		var bmu sync.Mutex
		next := 0
		for w := 0; w < 2; w++ {
			wwg.Add(1)
			go func(w int) {
				defer wwg.Done()
				wr := rand.New(rand.NewSource(int64(c*100 + w)))
				for {
					bmu.Lock()
					b := next
					next++
					var els []vel
					if b < nBatches {
						els = genEls(wr, b, 1+wr.Intn(40), 50, uid)
					}
					bmu.Unlock()
					if b >= nBatches || firstBad.Load() != nil {
						return
					}
					mu.Lock()
					for _, e := range els {
						batchOf[e.uid] = b
					}
					sizes[b] = len(els)
					mu.Unlock()
					seg := segs[(b/(1+wr.Intn(3)))%3]
					tst.mustAddElementsWithSegmentID(toElements(els), seg, nil)
					mu.Lock()
					acked = append(acked, els...)
					mu.Unlock()
					if wr.Intn(4) == 0 {
						time.Sleep(time.Duration(wr.Intn(2500)) * time.Microsecond)
					}
				}
			}(w)
		}
		wwg.Wait()
		stable, lastSig := 0, ""
		deadline := time.Now().Add(60 * time.Second)
		for stable < 20 && time.Now().Before(deadline) && firstBad.Load() == nil {
			snp := tst.currentSnapshot()
			f := factsOf(snp)
			snp.decRef()
			if f.mem == 0 && f.sig == lastSig {
				stable++
			} else {
				stable = 0
			}
			lastSig = f.sig
			time.Sleep(5 * time.Millisecond)
		}
		stop.Store(true)
		wg.Wait()
		if fb := firstBad.Load(); fb != nil {
			kd := fb.([2]any)
			s.Violation("stream:live:"+kd[0].(string), kd[1].(map[string]any))
		} else {
			snp := tst.currentSnapshot()
			final, err := scanSnapshot(snp)
			snp.decRef()
			if err != nil {
				s.Violation("stream:live:final-scan-failed", map[string]any{"case": c, "err": err.Error()})
			} else if d := compareExact(final, acked); d != "" {
				s.Violation("stream:live:final-state-differs-from-acknowledged", map[string]any{"case": c, "discrepancy": d})
			}
			if stable < 20 {
				s.Inconclusive(fmt.Sprintf("stream live case %d did not reach quiescence within the watchdog", c))
			}
		}
		keep := map[uint64]bool{}
		if snp := tst.currentSnapshot(); snp != nil {
			for _, id := range factsOf(snp).fileIDs {
				keep[id] = true
			}
			snp.decRef()
		}
		tst.Close()
		if mk, ok := manifestParts(fileSystem, dir); ok {
			keep = mk
		}
		if firstBad.Load() == nil && stable >= 20 {
			left, missing := settledDisk(dir, keep)
			if len(missing) > 0 {
				s.Violation("stream:live:live-part-deleted", map[string]any{"case": c, "parts": missing})
			}
			if len(left) > 0 {
				// not a verdict by itself (no time bound in the property): a restart must clean them up
				s.Count("stream.live.replaced_parts_still_on_disk_2s_after_close", 1)
				if t2, err := newTSTable(fileSystem, dir, common.Position{}, logger.GetLogger("verif"), timestamp.TimeRange{},
					option{flushTimeout: time.Second, elementIndexFlushTimeout: time.Second, mergePolicy: newMergePolicy(1000, 1, 1<<40), protector: protector.Nop{}}, nil); err == nil {
					t2.Close()
					if left, _ := settledDisk(dir, keep); len(left) > 0 {
						s.Violation("stream:live:replaced-part-survives-restart", map[string]any{"case": c, "parts": left})
					}
				}
			}
		}
		s.Count("stream.live.scans", scans.Load())
		s.Count("stream.live.scans_overlapping_a_snapshot_change", during.Load())
		s.Count("stream.live.distinct_snapshot_states_pinned", pinnedStates.Load())
		s.Case(fmt.Sprintf("live/%d/%d", c, pinnedStates.Load()), during.Load() > 0 && pinnedStates.Load() > 3)
		if c == 0 {
			s.Sample(map[string]any{"mode": "live", "batches": nBatches, "scans": scans.Load(), "distinct_snapshot_states_pinned": pinnedStates.Load()})
		}
		os.RemoveAll(dir)
	}
}

func TestVerifStream(t *testing.T) {
	s := verifh.S()
	base := filepath.Join(verifh.Scratch(), "stream")
	fileSystem := fs.NewLocalFileSystem()
	var uid int64
	streamStep(s, base, fileSystem, &uid)
	streamLive(s, base, fileSystem, &uid)
	os.RemoveAll(base)
	s.Done()
}
