package db

// C18 (gossip level) — replicas converge through the real anti-entropy path: the scheduler's own tree build
// (snapshot, Merkle tree, state file) and the repair gossip client/server over gRPC.
// Three replicas receive seeded subsets of one global history (ids with '/', ids that are prefixes of one
// another, deletes). In some cases a write lands on a replica while its tree is being built (after the
// snapshot was taken). Then three rounds of: every replica runs its tree-build tick, every ordered pair
// gossips in seeded order. Monitors: a replica's visible revision of a key never goes backwards, a tombstone is
// never resurrected; after the rounds every replica shows the newest copy held anywhere, for every key.

import (
	"context"
	"fmt"
	"net"
	"os"
	"path"
	"path/filepath"
	"testing"
	"time"

	blugeindex "github.com/blugelabs/bluge/index"
	"go.uber.org/multierr"
	"google.golang.org/grpc"
	"google.golang.org/grpc/credentials/insecure"

	propertyv1 "github.com/apache/skywalking-banyandb/api/proto/banyandb/property/v1"
	"github.com/apache/skywalking-banyandb/banyand/internal/storage"
	"github.com/apache/skywalking-banyandb/banyand/observability"
	"github.com/apache/skywalking-banyandb/banyand/property/gossip"
	"github.com/apache/skywalking-banyandb/pkg/fs"
	"github.com/apache/skywalking-banyandb/pkg/verifh"
)

type gNoopSpan struct{}

func (gNoopSpan) ID() string         { return "" }
func (gNoopSpan) TraceID() string    { return "" }
func (gNoopSpan) Tag(string, string) {}
func (gNoopSpan) End()               {}
func (gNoopSpan) Error(string)       {}

type gNoopTrace struct{}

func (gNoopTrace) CreateSpan(gossip.Span, string) gossip.Span { return gNoopSpan{} }
func (gNoopTrace) ActivateSpan() gossip.Span                  { return gNoopSpan{} }

type greplica struct {
	vreplica
	srv           *grpc.Server
	afterSnapshot func()
	addr          string
	snapDirs      []string
}

func openGossipReplica(dir, scope string) (*greplica, error) {
	g := &greplica{}
	var db *database
	inst, err := OpenDB(context.Background(), Config{Location: filepath.Join(dir, "data"), MetricsScopeName: scope, FlushInterval: 10 * time.Minute, ExpireToDeleteDuration: 24 * time.Hour,
		Repair: RepairConfig{Enabled: true, Location: filepath.Join(dir, "repair"), BuildTreeCron: "@every 10m", QuickBuildTreeTime: 10 * time.Minute, TreeSlotCount: 4},
		Snapshot: SnapshotConfig{Func: func(context.Context) (string, error) {
			snapshotDir := filepath.Join(dir, fmt.Sprint("snap", len(g.snapDirs)))
			g.snapDirs = append(g.snapDirs, snapshotDir)
			os.MkdirAll(snapshotDir, 0o755)
			var snpErr error
			db.groups.Range(func(_, value any) bool {
				sLst := value.(*groupShards).shards.Load()
				if sLst == nil {
					return true
				}
				for _, s := range *sLst {
					d := path.Join(snapshotDir, s.group, filepath.Base(s.location))
					os.MkdirAll(filepath.Dir(d), 0o755)
					lfs.MkdirPanicIfExist(d, storage.DirPerm)
					snpErr = multierr.Append(snpErr, s.store.TakeFileSnapshot(d))
				}
				return true
			})
			if hook := g.afterSnapshot; hook != nil {
				g.afterSnapshot = nil
				hook()
			}
			return snapshotDir, snpErr
		}},
		Index: IndexConfig{WaitForPersistence: true},
	}, observability.NewBypassRegistry(), fs.NewLocalFileSystem())
	if err != nil {
		return nil, err
	}
	db = inst.(*database)
	sh, err := db.loadShard(context.Background(), vGroup, 0)
	if err != nil {
		db.Close()
		return nil, err
	}
	lis, err := net.Listen("tcp", "127.0.0.1:0")
	if err != nil {
		db.Close()
		return nil, err
	}
	g.srv = grpc.NewServer()
	db.repairScheduler.registerServerToGossip()(g.srv)
	go func() { _ = g.srv.Serve(lis) }()
	g.vreplica = vreplica{db: db, sh: sh, dir: dir}
	g.addr = lis.Addr().String()
	return g, nil
}

func (g *greplica) waitIndexSettled() {
	latest := func() uint64 {
		items, err := blugeindex.DefaultConfig(g.sh.location).DirectoryFunc().List(blugeindex.ItemKindSnapshot)
		if err != nil {
			return 0
		}
		var m uint64
		for _, id := range items {
			m = max(m, id)
		}
		return m
	}
	last, stable := latest(), 0
	for i := 0; i < 400 && stable < 20; i++ {
		time.Sleep(50 * time.Millisecond)
		if cur := latest(); cur != last {
			last, stable = cur, 0
		} else {
			stable++
		}
	}
}

func (g *greplica) exchange(peer *greplica) error {
	conn, err := grpc.NewClient(peer.addr, grpc.WithTransportCredentials(insecure.NewCredentials()))
	if err != nil {
		return err
	}
	defer conn.Close()
	ctx, cancel := context.WithTimeout(context.Background(), 60*time.Second)
	defer cancel()
	return newRepairGossipClient(g.db.repairScheduler).Rev(ctx, gNoopTrace{}, conn, &propertyv1.PropagationRequest{Group: vGroup, ShardId: 0})
}

func TestVerifC18Gossip(t *testing.T) {
	s := verifh.S()
	base := filepath.Join(verifh.Scratch(), "c18g")
	ctx := context.Background()
	keyPool := []string{"svc-1", "svc-10", "svc/instance-1", "a/b/c", "a/b", "id1", "plain", "x/"}
	for c := 0; c < verifh.Pick(30, 400); c++ {
		r := verifh.Rand("c18gossip", c)
		var reps []*greplica
		ok := true
		for i := 0; i < 3; i++ {
			dir := filepath.Join(base, fmt.Sprintf("c%04d-r%d", c, i))
			os.RemoveAll(dir)
			rp, err := openGossipReplica(dir, fmt.Sprintf("verif_c18g_%d_%d", c, i))
			if err != nil {
				s.Violation("c18:gossip:open", map[string]any{"err": err.Error()})
				ok = false
				break
			}
			reps = append(reps, rp)
		}
		if !ok {
			continue
		}
		keys := append([]string(nil), keyPool[:3+r.Intn(len(keyPool)-2)]...)
		var hist []string
		rev := int64(1000)
		event := func(k string, reach []int) {
			rev += int64(1 + r.Intn(5))
			tags := map[string]string{"t": fmt.Sprint(rev)}
			p := mkProp(k, rev, tags)
			for _, i := range reach {
				older := reps[i].liveDocIDs(k)
				if err := reps[i].sh.update(GetPropertyID(p), p); err != nil {
					s.Violation("c18:gossip:update-error", map[string]any{"err": err.Error()})
				}
				if len(older) > 0 && r.Intn(4) > 0 {
					reps[i].sh.deleteFromTime(ctx, older, time.Now())
				}
			}
			hist = append(hist, fmt.Sprintf("apply %s rev %d -> replicas %v", k, rev, reach))
		}
		reachOf := func() []int {
			var reach []int
			for i := range reps {
				if r.Intn(3) > 0 {
					reach = append(reach, i)
				}
			}
			if len(reach) == 0 {
				reach = []int{r.Intn(3)}
			}
			return reach
		}
		for e := 0; e < 4+r.Intn(12); e++ {
			k := keys[r.Intn(len(keys))]
			reach := reachOf()
			if r.Intn(5) == 0 {
				done := false
				for _, i := range reach {
					if ids := reps[i].liveDocIDs(k); len(ids) > 0 {
						reps[i].sh.deleteFromTime(ctx, ids, time.Now())
						done = true
					}
				}
				if done {
					hist = append(hist, fmt.Sprintf("delete %s -> replicas %v", k, reach))
				}
				continue
			}
			event(k, reach)
		}
		// a first tick everywhere, so that trees and state files exist
		for i, rp := range reps {
			if err := rp.db.repairScheduler.doBuildTree(); err != nil {
				s.Violation("c18:gossip:tree-build-fails", map[string]any{"replica": i, "err": err.Error(), "history": hist})
			}
		}
		// more history after the first build; in a third of the cases one write races with a replica's tree build
		for e := 0; e < 1+r.Intn(5); e++ {
			event(keys[r.Intn(len(keys))], reachOf())
		}
		racing := r.Intn(3) == 0
		if racing {
			victim := r.Intn(3)
			k := keys[r.Intn(len(keys))]
			reps[victim].afterSnapshot = func() {
				event(k, []int{victim})
				hist[len(hist)-1] += " (while replica " + fmt.Sprint(victim) + " builds its tree)"
				reps[victim].waitIndexSettled()
			}
		}
		want := func() map[string]vcopy {
			w := map[string]vcopy{}
			for _, k := range keys {
				for _, rp := range reps {
					cs, err := rp.copies(k)
					if err != nil {
						continue
					}
					n := newest(cs)
					cur := w[k]
					if n.present && (!cur.present || n.rev > cur.rev || (n.rev == cur.rev && n.del > 0 && cur.del == 0)) {
						w[k] = n
					}
				}
			}
			return w
		}
		bad := false
		diverged := 0
		for round := 0; round < 3 && !bad; round++ {
			for i, rp := range reps {
				if err := rp.db.repairScheduler.doBuildTree(); err != nil {
					s.Violation("c18:gossip:tree-build-fails", map[string]any{"replica": i, "err": err.Error(), "history": hist})
					bad = true
				}
			}
			if round == 0 {
				w := want()
				for _, k := range keys {
					for _, rp := range reps {
						cs, _ := rp.copies(k)
						if newest(cs).String() != w[k].String() {
							diverged++
						}
					}
				}
			}
			type pair struct{ a, b int }
			var plan []pair
			for a := 0; a < 3; a++ {
				for b := 0; b < 3; b++ {
					if a != b {
						plan = append(plan, pair{a, b})
					}
				}
			}
			r.Shuffle(len(plan), func(x, y int) { plan[x], plan[y] = plan[y], plan[x] })
			for _, pr := range plan {
				before := [3]map[string]vcopy{}
				for i, rp := range reps {
					before[i] = map[string]vcopy{}
					for _, k := range keys {
						cs, _ := rp.copies(k)
						before[i][k] = newest(cs)
					}
				}
				err := reps[pr.a].exchange(reps[pr.b])
				s.Count("c18.gossip.exchanges", 1)
				d := func(m map[string]any) map[string]any {
					m["case"], m["history"], m["exchange"] = c, hist, fmt.Sprintf("round %d: replica %d gossips with replica %d", round, pr.a, pr.b)
					return m
				}
				if err != nil {
					s.Violation("c18:gossip:exchange-fails", d(map[string]any{"err": err.Error()}))
					bad = true
					break
				}
				for i, rp := range reps {
					for _, k := range keys {
						cs, _ := rp.copies(k)
						after, b := newest(cs), before[i][k]
						switch {
						case b.present && (!after.present || after.rev < b.rev):
							s.Violation("c18:gossip:newer-local-copy-replaced-by-older", d(map[string]any{"replica": i, "key": k, "before": b.String(), "after": after.String()}))
							bad = true
						case b.present && after.rev == b.rev && b.del > 0 && after.del == 0:
							s.Violation("c18:gossip:tombstone-resurrected", d(map[string]any{"replica": i, "key": k, "before": b.String(), "after": after.String()}))
							bad = true
						}
					}
				}
			}
		}
		if !bad {
			w := want()
			for _, k := range keys {
				for i, rp := range reps {
					cs, _ := rp.copies(k)
					if n := newest(cs); n.String() != w[k].String() {
						s.Violation("c18:gossip:replicas-did-not-converge", map[string]any{"case": c, "key": k, "replica": i, "shows": n.String(), "newest_copy_anywhere": w[k].String(), "history": hist, "write_raced_with_a_tree_build": racing})
						break
					}
				}
			}
		}
		s.Case(fmt.Sprint(hist), diverged > 0)
		if racing {
			s.Count("c18.gossip.cases_with_a_write_racing_a_tree_build", 1)
		}
		if c < 2 {
			s.Sample(map[string]any{"keys": keys, "history": hist, "replica_key_states_diverged_before_gossip": diverged})
		}
		for _, rp := range reps {
			rp.srv.Stop()
			rp.db.Close()
			os.RemoveAll(rp.dir)
		}
	}
	os.RemoveAll(base)
	s.Done()
}
