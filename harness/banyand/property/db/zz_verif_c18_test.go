package db

// C18 (replica level) — anti-entropy repair is monotone and convergent.
// Three replicas (independent property databases, shard 0 of one group) receive seeded subsets of one global
// update history per key (apply with strictly increasing modification revisions, clean-up of older copies,
// deletes), so they disagree. Pairwise repair exchanges then run in seeded orders exactly as the repair
// handler does them: the sender offers its newest copy (value or tombstone) of a key through shard.repair;
// if the receiver answers that its own copy is newer, that copy travels back. Monitors after every exchange:
// the receiver's visible revision of the key never goes backwards, a key nobody touched keeps its state
// (ids that are prefixes of one another share group and name). After two full rounds every replica must
// expose, for every key, the globally newest copy: same revision, same tags, same live/deleted state.

import (
	"context"
	"fmt"
	"os"
	"path/filepath"
	"sort"
	"strings"
	"testing"
	"time"

	commonv1 "github.com/apache/skywalking-banyandb/api/proto/banyandb/common/v1"
	modelv1 "github.com/apache/skywalking-banyandb/api/proto/banyandb/model/v1"
	propertyv1 "github.com/apache/skywalking-banyandb/api/proto/banyandb/property/v1"
	"github.com/apache/skywalking-banyandb/banyand/observability"
	"github.com/apache/skywalking-banyandb/pkg/fs"
	"github.com/apache/skywalking-banyandb/pkg/index/inverted"
	"github.com/apache/skywalking-banyandb/pkg/verifh"
	"google.golang.org/protobuf/encoding/protojson"
)

const vGroup, vName = "vg", "vn"

type vcopy struct {
	rev     int64
	del     int64
	tags    string
	prop    *propertyv1.Property
	present bool
}

func (c vcopy) String() string {
	if !c.present {
		return "absent"
	}
	if c.del > 0 {
		return fmt.Sprintf("rev %d tombstone", c.rev)
	}
	return fmt.Sprintf("rev %d {%s}", c.rev, c.tags)
}

type vreplica struct {
	db  *database
	sh  *shard
	dir string
}

func openReplica(dir string) (*vreplica, error) {
	d, err := OpenDB(context.Background(), Config{Location: dir, MetricsScopeName: "verif_c18", FlushInterval: time.Hour, ExpireToDeleteDuration: 24 * time.Hour,
		Repair: RepairConfig{Enabled: false, Location: filepath.Join(dir, "repair"), TreeSlotCount: 32}}, observability.BypassRegistry, fs.NewLocalFileSystem())
	if err != nil {
		return nil, err
	}
	db := d.(*database)
	sh, err := db.loadShard(context.Background(), vGroup, 0)
	if err != nil {
		db.Close()
		return nil, err
	}
	return &vreplica{db: db, sh: sh, dir: dir}, nil
}

func mkProp(id string, rev int64, tags map[string]string) *propertyv1.Property {
	p := &propertyv1.Property{Metadata: &commonv1.Metadata{Group: vGroup, Name: vName, ModRevision: rev, CreateRevision: 1}, Id: id}
	var ks []string
	for k := range tags {
		ks = append(ks, k)
	}
	sort.Strings(ks)
	for _, k := range ks {
		p.Tags = append(p.Tags, &modelv1.Tag{Key: k, Value: &modelv1.TagValue{Value: &modelv1.TagValue_Str{Str: &modelv1.Str{Value: tags[k]}}}})
	}
	return p
}

func tagString(p *propertyv1.Property) string {
	var parts []string
	for _, t := range p.Tags {
		parts = append(parts, t.Key+"="+t.Value.GetStr().GetValue())
	}
	sort.Strings(parts)
	return strings.Join(parts, ",")
}

// copies lists every stored copy of the key on the replica.
func (rp *vreplica) copies(id string) ([]vcopy, error) {
	iq, err := inverted.BuildPropertyQuery(&propertyv1.QueryRequest{Groups: []string{vGroup}, Name: vName, Ids: []string{id}}, groupField, entityID)
	if err != nil {
		return nil, err
	}
	res, err := rp.sh.search(context.Background(), iq, nil, 1000)
	if err != nil {
		return nil, err
	}
	var out []vcopy
	for _, q := range res {
		var p propertyv1.Property
		if err := protojson.Unmarshal(q.source, &p); err != nil {
			return nil, err
		}
		if p.Id != id {
			return nil, fmt.Errorf("query for id %q returned a copy of id %q", id, p.Id)
		}
		out = append(out, vcopy{rev: q.timestamp, del: q.deleteTime, tags: tagString(&p), prop: &p, present: true})
	}
	sort.Slice(out, func(a, b int) bool { return out[a].rev < out[b].rev })
	return out, nil
}

// newest is the copy that decides what the replica shows for the key.
func newest(cs []vcopy) vcopy {
	if len(cs) == 0 {
		return vcopy{}
	}
	return cs[len(cs)-1]
}

func (rp *vreplica) liveDocIDs(id string) [][]byte {
	cs, _ := rp.copies(id)
	var ids [][]byte
	for _, c := range cs {
		if c.del == 0 {
			ids = append(ids, GetPropertyID(c.prop))
		}
	}
	return ids
}

func TestVerifC18Repair(t *testing.T) {
	s := verifh.S()
	base := filepath.Join(verifh.Scratch(), "c18")
	ctx := context.Background()
	keyPool := []string{"svc-1", "svc-10", "svc-100", "id1", "id10", "a", "a/b", "zz"}
	for c := 0; c < verifh.Pick(40, 800); c++ {
		r := verifh.Rand("c18repair", c)
		var reps []*vreplica
		okOpen := true
		for i := 0; i < 3; i++ {
			dir := filepath.Join(base, fmt.Sprintf("c%05d-r%d", c, i))
			os.RemoveAll(dir)
			rp, err := openReplica(dir)
			if err != nil {
				s.Violation("c18:repair:open", map[string]any{"err": err.Error()})
				okOpen = false
				break
			}
			reps = append(reps, rp)
		}
		if !okOpen {
			continue
		}
		keys := append([]string(nil), keyPool[:2+r.Intn(len(keyPool)-1)]...)
		var hist []string
		// ---- the global history; each event reaches a seeded subset of the replicas
		rev := int64(1000)
		global := map[string]vcopy{}
		nEvents := 4 + r.Intn(16)
		for e := 0; e < nEvents; e++ {
			k := keys[r.Intn(len(keys))]
			rev += int64(1 + r.Intn(5))
			var reach []int
			for i := range reps {
				if r.Intn(3) > 0 {
					reach = append(reach, i)
				}
			}
			if len(reach) == 0 {
				reach = []int{r.Intn(3)}
			}
			if r.Intn(4) == 0 && global[k].present && global[k].del == 0 { // delete: tombstones every live copy the replica holds
				for _, i := range reach {
					if ids := reps[i].liveDocIDs(k); len(ids) > 0 {
						if err := reps[i].sh.deleteFromTime(ctx, ids, time.Now()); err != nil {
							s.Violation("c18:repair:delete-error", map[string]any{"err": err.Error()})
						}
					}
				}
				g := global[k]
				g.del = rev
				global[k] = g
				hist = append(hist, fmt.Sprintf("delete %s -> replicas %v", k, reach))
				continue
			}
			tags := map[string]string{"t": fmt.Sprint(rev)}
			if r.Intn(2) == 0 {
				tags["u"] = fmt.Sprint("u", r.Intn(3))
			}
			p := mkProp(k, rev, tags)
			for _, i := range reach {
				older := reps[i].liveDocIDs(k)
				if err := reps[i].sh.update(GetPropertyID(p), p); err != nil {
					s.Violation("c18:repair:update-error", map[string]any{"err": err.Error()})
				}
				if len(older) > 0 && r.Intn(4) > 0 { // the coordinator's clean-up of superseded copies (may be missed)
					reps[i].sh.deleteFromTime(ctx, older, time.Now())
				}
			}
			global[k] = vcopy{rev: rev, tags: tagString(p), prop: p, present: true}
			hist = append(hist, fmt.Sprintf("apply %s rev %d -> replicas %v", k, rev, reach))
		}
		// what the union of the replicas knows: the newest copy anywhere (a delete that reached nobody holding the
		// newest copy is not knowable by repair)
		want := map[string]vcopy{}
		for _, k := range keys {
			for _, rp := range reps {
				cs, err := rp.copies(k)
				if err != nil {
					s.Violation("c18:repair:read-error", map[string]any{"err": err.Error(), "history": hist})
					continue
				}
				n := newest(cs)
				w := want[k]
				if n.present && (!w.present || n.rev > w.rev || (n.rev == w.rev && n.del > 0 && w.del == 0)) {
					want[k] = n
				}
			}
		}
		diverged := 0
		for _, k := range keys {
			for _, rp := range reps {
				cs, _ := rp.copies(k)
				if n := newest(cs); n.String() != want[k].String() {
					diverged++
				}
			}
		}
		// ---- repair exchanges
		bad := false
		exchange := func(from, to int, k string) {
			src, _ := reps[from].copies(k)
			offer := newest(src)
			if !offer.present {
				return
			}
			before := map[string]vcopy{}
			for _, kk := range keys {
				cs, _ := reps[to].copies(kk)
				before[kk] = newest(cs)
			}
			_, selfNewer, err := reps[to].sh.repair(ctx, GetPropertyID(offer.prop), offer.prop, offer.del)
			s.Count("c18.repair.exchanges", 1)
			d := func(m map[string]any) map[string]any {
				m["case"], m["history"], m["exchange"] = c, hist, fmt.Sprintf("replica %d offers %s of key %q to replica %d", from, offer, k, to)
				return m
			}
			if err != nil {
				s.Violation("c18:repair:error", d(map[string]any{"err": err.Error()}))
				bad = true
				return
			}
			for _, kk := range keys {
				cs, _ := reps[to].copies(kk)
				after := newest(cs)
				b := before[kk]
				switch {
				case kk != k && after.String() != b.String():
					s.Violation("c18:repair:exchange-for-one-key-changed-another", d(map[string]any{"other_key": kk, "before": b.String(), "after": after.String()}))
					bad = true
				case kk == k && b.present && (!after.present || after.rev < b.rev):
					s.Violation("c18:repair:newer-local-copy-replaced-by-older", d(map[string]any{"before": b.String(), "after": after.String()}))
					bad = true
				case kk == k && b.present && after.rev == b.rev && b.del > 0 && after.del == 0:
					s.Violation("c18:repair:tombstone-resurrected", d(map[string]any{"before": b.String(), "after": after.String()}))
					bad = true
				}
			}
			if selfNewer != nil {
				var p propertyv1.Property
				if err := protojson.Unmarshal(selfNewer.source, &p); err == nil {
					if _, _, err := reps[from].sh.repair(ctx, GetPropertyID(&p), &p, selfNewer.deleteTime); err != nil {
						s.Violation("c18:repair:error", d(map[string]any{"err": err.Error(), "direction": "newer copy travelling back"}))
						bad = true
					}
					s.Count("c18.repair.newer_copies_sent_back", 1)
				}
			}
		}
		for round := 0; round < 2 && !bad; round++ {
			type ex struct {
				from, to int
				k        string
			}
			var plan []ex
			for _, k := range keys {
				for a := 0; a < 3; a++ {
					for b := 0; b < 3; b++ {
						if a != b {
							plan = append(plan, ex{a, b, k})
						}
					}
				}
			}
			r.Shuffle(len(plan), func(a, b int) { plan[a], plan[b] = plan[b], plan[a] })
			for _, e := range plan {
				if bad {
					break
				}
				exchange(e.from, e.to, e.k)
			}
		}
		if !bad {
			for _, k := range keys {
				for i, rp := range reps {
					cs, _ := rp.copies(k)
					if n := newest(cs); n.String() != want[k].String() {
						s.Violation("c18:repair:replicas-did-not-converge", map[string]any{"case": c, "key": k, "replica": i, "shows": n.String(), "newest_copy_anywhere": want[k].String(), "history": hist})
						break
					}
				}
			}
		}
		prefixPairs := 0
		for _, a := range keys {
			for _, b := range keys {
				if a != b && strings.HasPrefix(b, a) {
					prefixPairs++
				}
			}
		}
		s.Case(fmt.Sprint(hist), diverged > 0)
		s.Count("c18.repair.cases_with_prefix_related_ids", int64(min(1, prefixPairs)))
		if c < 2 {
			s.Sample(map[string]any{"keys": keys, "history": hist, "replica_key_states_diverged_before_repair": diverged})
		}
		for _, rp := range reps {
			rp.db.Close()
			os.RemoveAll(rp.dir)
		}
	}
	os.RemoveAll(base)
	s.Done()
}
