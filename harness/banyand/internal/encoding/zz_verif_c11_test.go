package encoding_test

// C11 — storage codecs round-trip exactly; error-returning decoders never crash on bad bytes.
// Runtime monitor: seeded generators drive the real encode/decode pairs; the oracle compares bit patterns.
// Hostile half: a seeded structure-aware mutator feeds the error-returning decoders; a watchdog
// goroutine turns runaway allocation / CPU into a reported violation (the input is on disk beforehand).

import (
	"bytes"
	"encoding/hex"
	"fmt"
	"math"
	"math/rand"
	"os"
	"path/filepath"
	"runtime"
	"runtime/debug"
	"runtime/metrics"
	"strings"
	"sync/atomic"
	"syscall"
	"testing"
	"time"

	kzstd "github.com/klauspost/compress/zstd"
	"google.golang.org/protobuf/types/known/timestamppb"

	modelv1 "github.com/apache/skywalking-banyandb/api/proto/banyandb/model/v1"
	tagenc "github.com/apache/skywalking-banyandb/banyand/internal/encoding"
	pkgbytes "github.com/apache/skywalking-banyandb/pkg/bytes"
	"github.com/apache/skywalking-banyandb/pkg/compress/zstd"
	"github.com/apache/skywalking-banyandb/pkg/convert"
	"github.com/apache/skywalking-banyandb/pkg/encoding"
	"github.com/apache/skywalking-banyandb/pkg/encoding/vararray"
	pbv1 "github.com/apache/skywalking-banyandb/pkg/pb/v1"
	"github.com/apache/skywalking-banyandb/pkg/verifh"
)

var hostileInts = []int64{
	math.MinInt64, math.MinInt64 + 1, -(1 << 62), -(1 << 53) - 1, -(1 << 53), -(1 << 53) + 1, -(1 << 32), -65, -64, -63, -2, -1, 0,
	1, 2, 63, 64, 65, 127, 128, 255, 256, 1 << 14, 1 << 21, 1 << 32, (1 << 53) - 1, 1 << 53, (1 << 53) + 1, 1 << 62, math.MaxInt64 - 1, math.MaxInt64,
}

func genInts(r *rand.Rand, n int) ([]int64, string) {
	a := make([]int64, n)
	if n == 0 {
		return a, "empty"
	}
	kind := r.Intn(11)
	switch kind {
	case 9: // an arithmetic progression whose interior is nudged: monotone, same first step and same total span, steps not constant
		v, d := pickInt(r)/4, int64(r.Intn(2000)-1000)
		if d == 0 {
			d = 10
		}
		for i := range a {
			a[i] = v + int64(i)*d
		}
		if n >= 4 {
			for k := 1 + r.Intn(3); k > 0; k-- {
				i := 2 + r.Intn(n-3) // never the first step, never the endpoints
				e := d / 2
				if e == 0 {
					e = d
				}
				if r.Intn(2) == 0 && d/3 != 0 {
					e = d / 3
				}
				if r.Intn(2) == 0 {
					e = -e
				}
				a[i] += e
			}
		}
		return a, "nearconstdelta"
	case 10: // constant delta with one different step (first, last or in the middle)
		v, d := pickInt(r)/4, int64(r.Intn(2000)-1000)
		for i := range a {
			a[i] = v + int64(i)*d
		}
		if n >= 2 {
			j := []int{1, n - 1, 1 + r.Intn(n-1)}[r.Intn(3)]
			e := int64(r.Intn(7) - 3)
			if e == 0 {
				e = 1
			}
			for i := j; i < n; i++ {
				a[i] += e
			}
		}
		return a, "deltaconstbutone"
	case 0: // constant
		v := pickInt(r)
		for i := range a {
			a[i] = v
		}
		return a, "const"
	case 1: // constant delta, possibly wrapping
		v, d := pickInt(r), pickInt(r)
		if r.Intn(2) == 0 {
			d = int64(r.Intn(2000) - 1000)
		}
		for i := range a {
			a[i] = v
			v += d
		}
		return a, "deltaconst"
	case 2: // monotone with varying steps
		v := pickInt(r) / 2
		sign := int64(1)
		if r.Intn(2) == 0 {
			sign = -1
		}
		for i := range a {
			a[i] = v
			v += sign * int64(r.Intn(1<<uint(r.Intn(40))+1))
		}
		return a, "monotone"
	case 3: // counter with resets
		v := int64(r.Intn(1000))
		for i := range a {
			a[i] = v
			if r.Intn(50) == 0 {
				v = int64(r.Intn(3))
			} else {
				v += int64(r.Intn(1000))
			}
		}
		return a, "counter"
	case 4: // hostile pool
		for i := range a {
			a[i] = hostileInts[r.Intn(len(hostileInts))]
		}
		return a, "hostile"
	case 5: // full random
		for i := range a {
			a[i] = int64(r.Uint64())
		}
		return a, "random"
	case 6: // small noisy
		for i := range a {
			a[i] = int64(r.Intn(200) - 100)
		}
		return a, "small"
	case 7: // extremes alternating (overflowing deltas)
		for i := range a {
			if i%2 == 0 {
				a[i] = math.MaxInt64 - int64(r.Intn(3))
			} else {
				a[i] = math.MinInt64 + int64(r.Intn(3))
			}
		}
		return a, "overflowdelta"
	default: // increasing near MaxInt64 (wrapping second differences)
		v := math.MaxInt64 - int64(r.Intn(1<<20))
		for i := range a {
			a[i] = v
			v += int64(r.Intn(1 << 18))
		}
		return a, "wrapinc"
	}
}

func pickInt(r *rand.Rand) int64 {
	if r.Intn(3) == 0 {
		return hostileInts[r.Intn(len(hostileInts))]
	}
	return int64(r.Uint64()) >> uint(r.Intn(64))
}

var lengths = []int{1, 2, 3, 4, 7, 8, 9, 15, 16, 17, 63, 64, 65, 127, 128, 129, 255, 256, 257, 1000, 8191, 8192, 8193}

func pickLen(r *rand.Rand, min int) int {
	var n int
	if r.Intn(4) == 0 {
		n = lengths[r.Intn(len(lengths))]
	} else {
		n = r.Intn(40)
	}
	if n < min {
		n = min
	}
	return n
}

var hostileFloats = []float64{
	0, math.Copysign(0, -1), 1, -1, 0.1, -0.1, 0.3, 1e-7, 5e-324, -5e-324, 2.2250738585072014e-308, 2.225073858507201e-308,
	math.MaxFloat64, -math.MaxFloat64, math.SmallestNonzeroFloat64, math.Inf(1), math.Inf(-1), math.NaN(),
	math.Float64frombits(0x7ff8000000000001), math.Float64frombits(0xfff0000000000001),
	9007199254740992, 9007199254740993, 9007199254740991, 9223372036854775807, 9223372036854775808, 18446744073709551615,
	1e15, 1e16, 1e17, 1e18, 1e19, 1e22, 1e23, 1e300, 1e-300, 15832.827774512765, 0.30000000000000004, 123456789.12345679,
	1.7976931348623157e308, 4.9406564584124654e-324, 1.1, 2.5, 100, 1000000, 3.141592653589793, 99.99, 0.01, 12345.678,
}

func genFloats(r *rand.Rand, n int) ([]float64, string) {
	a := make([]float64, n)
	kind := r.Intn(8)
	switch kind {
	case 0:
		for i := range a {
			a[i] = hostileFloats[r.Intn(len(hostileFloats))]
		}
		return a, "hostile"
	case 1: // 2-decimal metrics
		for i := range a {
			a[i] = float64(r.Intn(2000000)-1000000) / 100
		}
		return a, "dec2"
	case 2: // many-digit decimals
		for i := range a {
			a[i] = r.Float64() * math.Pow10(r.Intn(8))
		}
		return a, "digits17"
	case 3: // random bit patterns (all classes)
		for i := range a {
			a[i] = math.Float64frombits(r.Uint64())
		}
		return a, "bits"
	case 4: // integers as floats, large
		for i := range a {
			a[i] = float64(int64(r.Uint64()) >> uint(r.Intn(64)))
		}
		return a, "intlike"
	case 5: // mixed exponents that overflow the common scale
		for i := range a {
			a[i] = float64(r.Intn(1000)+1) * math.Pow10(r.Intn(40)-20)
		}
		return a, "mixedexp"
	case 6: // 15/16 significant digits
		for i := range a {
			v := float64(r.Int63n(1e16)) / math.Pow10(r.Intn(16))
			if r.Intn(2) == 0 {
				v = -v
			}
			a[i] = v
		}
		return a, "digits16"
	default: // constant incl. negative zero
		v := hostileFloats[r.Intn(len(hostileFloats))]
		for i := range a {
			a[i] = v
		}
		return a, "const"
	}
}

var byteAtoms = [][]byte{nil, {}, {0}, []byte("null"), []byte("|"), []byte("\\"), []byte("a"), []byte("ab"), {0xff}, []byte("\\|"), []byte("é世")}

func genBytesList(r *rand.Rand, n int) ([][]byte, string) {
	a := make([][]byte, n)
	kind := r.Intn(6)
	switch kind {
	case 0: // atoms: nil / empty / 1-byte
		for i := range a {
			a[i] = byteAtoms[r.Intn(len(byteAtoms))]
		}
		return a, "atoms"
	case 1: // low cardinality
		k := r.Intn(5) + 1
		for i := range a {
			a[i] = []byte(fmt.Sprintf("v%d", r.Intn(k)))
		}
		return a, "lowcard"
	case 2: // > 256 distinct (dictionary overflow)
		for i := range a {
			a[i] = []byte(fmt.Sprintf("u%d", i))
		}
		return a, "distinct"
	case 3: // around the dictionary limit
		k := []int{255, 256, 257}[r.Intn(3)]
		for i := range a {
			a[i] = []byte(fmt.Sprintf("k%d", i%k))
		}
		return a, "card" + fmt.Sprint(k)
	case 4: // random binary, varied lengths (crosses the 128-byte compression switch)
		for i := range a {
			b := make([]byte, r.Intn(1<<uint(r.Intn(11))))
			r.Read(b)
			a[i] = b
		}
		return a, "binary"
	default: // runs (RLE)
		var cur []byte
		for i := range a {
			if i == 0 || r.Intn(6) == 0 {
				cur = byteAtoms[r.Intn(len(byteAtoms))]
				if r.Intn(2) == 0 {
					cur = []byte(fmt.Sprintf("run%d", r.Intn(300)))
				}
			}
			a[i] = cur
		}
		return a, "runs"
	}
}

func sameBytesList(a, b [][]byte) (int, bool) {
	if len(a) != len(b) {
		return -1, false
	}
	for i := range a {
		if (a[i] == nil) != (b[i] == nil) || !bytes.Equal(a[i], b[i]) {
			return i, false
		}
	}
	return 0, true
}

func short(b []byte) string {
	if len(b) > 48 {
		return hex.EncodeToString(b[:48]) + fmt.Sprintf("..(%d)", len(b))
	}
	return hex.EncodeToString(b)
}

func hexList(a [][]byte, around int) []string {
	var out []string
	for i := around - 1; i <= around+1; i++ {
		if i >= 0 && i < len(a) {
			if a[i] == nil {
				out = append(out, fmt.Sprintf("[%d]=nil", i))
			} else {
				out = append(out, fmt.Sprintf("[%d]=%s", i, short(a[i])))
			}
		}
	}
	return out
}

// corpus collects valid encodings per decoder as mutation seeds.
type seedEnc struct {
	b     []byte
	mt    encoding.EncodeType
	first int64
	count int
}

var corpus = map[string][]seedEnc{}

func addSeed(dec string, s seedEnc) {
	if len(corpus[dec]) < 400 && len(s.b) <= 1<<16 {
		s.b = append([]byte(nil), s.b...)
		corpus[dec] = append(corpus[dec], s)
	}
}

func roundTrips(s *verifh.Sink) {
	n := verifh.Pick(6000, 30000)
	for i := 0; i < n; i++ {
		r := verifh.Rand("c11rt", i)
		// 1. int64 lists, all modes
		{
			a, kind := genInts(r, pickLen(r, 1))
			enc, mt, first := encoding.Int64ListToBytes(nil, a)
			got, err := encoding.BytesToInt64List(nil, enc, mt, first, len(a))
			nt := len(a) >= 2 && mt != encoding.EncodeTypeConst
			s.Case(fmt.Sprintf("int/%s/%d/%x", kind, len(a), enc), nt)
			s.Count(fmt.Sprintf("rt.int64list.mode%d", mt), 1)
			if err != nil || !equalInts(a, got) {
				s.Violation("roundtrip:Int64ListToBytes:"+kind, map[string]any{"input": clip(a), "mode": mt, "err": fmt.Sprint(err), "got": clip(got)})
			}
			addSeed("int64list", seedEnc{b: enc, mt: mt, first: first, count: len(a)})
			if i < 2 {
				s.Sample(map[string]any{"codec": "Int64ListToBytes", "kind": kind, "len": len(a), "mode": mt, "head": clip(a)})
			}
		}
		// 2. varints
		{
			a, kind := genInts(r, pickLen(r, 0))
			enc := encoding.VarInt64ListToBytes(nil, a)
			got := make([]int64, len(a))
			tail, err := encoding.BytesToVarInt64List(got, enc)
			s.Case(fmt.Sprintf("varint/%x", enc), len(a) >= 2)
			s.Count("rt.varint64", 1)
			if err != nil || len(tail) != 0 || !equalInts(a, got) {
				s.Violation("roundtrip:VarInt64ListToBytes:"+kind, map[string]any{"input": clip(a), "err": fmt.Sprint(err), "got": clip(got)})
			}
			addSeed("varint64", seedEnc{b: enc, count: len(a)})
			u := make([]uint64, len(a))
			for j, v := range a {
				u[j] = uint64(v)
			}
			encU := encoding.VarUint64sToBytes(nil, u)
			gotU := make([]uint64, len(u))
			tail, err = encoding.BytesToVarUint64s(gotU, encU)
			s.Case(fmt.Sprintf("varuint/%x", encU), len(a) >= 2)
			s.Count("rt.varuint64", 1)
			if err != nil || len(tail) != 0 || !equalUints(u, gotU) {
				s.Violation("roundtrip:VarUint64sToBytes:"+kind, map[string]any{"input": clip(a), "err": fmt.Sprint(err)})
			}
			addSeed("varuint64", seedEnc{b: encU, count: len(u)})
			for _, v := range u[:min(len(u), 4)] {
				e1 := encoding.VarUint64ToBytes(nil, v)
				t1, g1 := encoding.BytesToVarUint64(e1)
				if len(t1) != 0 || g1 != v {
					s.Violation("roundtrip:VarUint64ToBytes", map[string]any{"input": v, "got": g1})
				}
			}
			// adaptive-width unsigned block
			w := uint(r.Intn(64))
			for j := range u {
				u[j] >>= w
			}
			encB := encoding.EncodeUint64Block(nil, u)
			gotB, tailB, errB := encoding.DecodeUint64Block(nil, encB, uint64(len(u)))
			s.Case(fmt.Sprintf("u64block/%x", encB), len(u) >= 2)
			s.Count("rt.uint64block", 1)
			if errB != nil || len(tailB) != 0 || !equalUints(u, gotB) {
				s.Violation("roundtrip:EncodeUint64Block:"+kind, map[string]any{"width": 64 - w, "len": len(u), "err": fmt.Sprint(errB)})
			}
			addSeed("uint64block", seedEnc{b: encB, count: len(u)})
		}
		// 3. decimal floats
		{
			f, kind := genFloats(r, pickLen(r, 1))
			ints, exp, err := encoding.Float64ListToDecimalIntList(nil, f)
			if err != nil {
				s.Case("float/refused/"+kind, false)
				s.Count("rt.float.refused", 1)
			} else {
				got, derr := encoding.DecimalIntListToFloat64List(nil, ints, exp, len(f))
				s.Case(fmt.Sprintf("float/%s/%d/%v/%d", kind, len(f), ints, exp), len(f) >= 2)
				s.Count("rt.float.encoded", 1)
				bad := -1
				if derr != nil || len(got) != len(f) {
					bad = 0
				} else {
					for j := range f {
						if math.Float64bits(f[j]) != math.Float64bits(got[j]) {
							bad = j
							break
						}
					}
				}
				if bad >= 0 {
					d := map[string]any{"kind": kind, "index": bad, "wrote_bits": fmt.Sprintf("%016x", math.Float64bits(f[bad])), "wrote": fmt.Sprintf("%.17g", f[bad]), "exp": exp, "err": fmt.Sprint(derr)}
					if bad < len(got) {
						d["read_bits"] = fmt.Sprintf("%016x", math.Float64bits(got[bad]))
						d["read"] = fmt.Sprintf("%.17g", got[bad])
					}
					s.Violation("roundtrip:Float64ListToDecimalIntList:"+floatClass(f[bad]), d)
				}
				if i < 2 {
					s.Sample(map[string]any{"codec": "Float64ListToDecimalIntList", "kind": kind, "len": len(f), "exp": exp})
				}
			}
		}
		// 4. bytes block, dictionary, tag value column encoders
		{
			a, kind := genBytesList(r, pickLen(r, 0))
			enc := encoding.EncodeBytesBlock(nil, a)
			var dec encoding.BytesBlockDecoder
			got, err := dec.Decode(nil, enc, uint64(len(a)))
			s.Case(fmt.Sprintf("bytesblock/%s/%x", kind, enc), len(a) >= 2)
			s.Count("rt.bytesblock", 1)
			if idx, ok := sameBytesList(a, got); err != nil || !ok {
				s.Violation("roundtrip:EncodeBytesBlock:"+kind, map[string]any{"len": len(a), "index": idx, "want": hexList(a, idx), "got": hexList(got, idx), "err": fmt.Sprint(err)})
			}
			addSeed("bytesblock", seedEnc{b: enc, count: len(a)})
			var dec2 encoding.BytesBlockDecoder
			got2, tail2, err2 := dec2.DecodeWithTail(nil, append(append([]byte(nil), enc...), 0xAA, 0xBB), uint64(len(a)))
			if idx, ok := sameBytesList(a, got2); err2 != nil || !ok || !bytes.Equal(tail2, []byte{0xAA, 0xBB}) {
				s.Violation("roundtrip:DecodeWithTail:"+kind, map[string]any{"len": len(a), "index": idx, "err": fmt.Sprint(err2), "tail": short(tail2)})
			}

			if len(a) > 0 {
				d := encoding.NewDictionary()
				full := false
				for _, v := range a {
					if !d.Add(v) {
						full = true
						break
					}
				}
				if full {
					s.Count("rt.dictionary.refused", 1)
				} else {
					encD := d.Encode(nil)
					d2 := encoding.NewDictionary()
					gotD, errD := d2.Decode(nil, encD, uint64(len(a)))
					s.Case(fmt.Sprintf("dict/%s/%x", kind, encD), len(a) >= 2)
					s.Count("rt.dictionary.encoded", 1)
					if idx, ok := sameBytesList(a, gotD); errD != nil || !ok {
						s.Violation("roundtrip:Dictionary:"+kind, map[string]any{"len": len(a), "index": idx, "want": hexList(a, idx), "got": hexList(gotD, idx), "err": fmt.Sprint(errD)})
					}
					addSeed("dictionary", seedEnc{b: encD, count: len(a)})
					vals, errV := encoding.DecodeDictionaryValues(encD)
					if errV != nil {
						s.Violation("roundtrip:DecodeDictionaryValues:"+kind, map[string]any{"err": fmt.Sprint(errV)})
					}
					_ = vals
				}
				// the column encoder that chooses dictionary vs plain
				tagRoundTrip(s, a, pbv1.ValueTypeStr, "str/"+kind)
			}
		}
		// 5. typed tag columns: int64 / float64 (values are 8-byte big-endian, nil = null)
		{
			a, kind := genInts(r, pickLen(r, 1))
			vals := make([][]byte, len(a))
			withNull := r.Intn(6) == 0
			for j, v := range a {
				vals[j] = convert.Int64ToBytes(v)
				if withNull && r.Intn(4) == 0 {
					vals[j] = nil
				}
			}
			tagRoundTrip(s, vals, pbv1.ValueTypeInt64, "int/"+kind)
			f, fkind := genFloats(r, pickLen(r, 1))
			fv := make([][]byte, len(f))
			for j, v := range f {
				fv[j] = convert.Float64ToBytes(v)
				if withNull && r.Intn(4) == 0 {
					fv[j] = nil
				}
			}
			tagRoundTrip(s, fv, pbv1.ValueTypeFloat64, "float/"+fkind)
		}
		// 6. var-array escaping, length-prefixed bytes, zstd
		{
			a, kind := genBytesList(r, pickLen(r, 1))
			var enc []byte
			for _, v := range a {
				enc = vararray.MarshalVarArray(enc, v)
			}
			buf := append([]byte(nil), enc...)
			idx, j := 0, 0
			ok := true
			var errU error
			for idx < len(buf) && j < len(a) {
				end, next, err := vararray.UnmarshalVarArray(buf, idx)
				if err != nil {
					errU, ok = err, false
					break
				}
				if !bytes.Equal(buf[idx:end], a[j]) {
					ok = false
					break
				}
				idx = next
				j++
			}
			s.Case(fmt.Sprintf("vararray/%x", enc), bytes.ContainsAny(enc, "|\\") && len(a) >= 2)
			s.Count("rt.vararray", 1)
			if !ok || j != len(a) || idx != len(buf) {
				s.Violation("roundtrip:MarshalVarArray:"+kind, map[string]any{"elem": j, "want": hexList(a, j), "err": fmt.Sprint(errU), "enc": short(enc)})
			}
			addSeed("vararray", seedEnc{b: enc})

			var lp []byte
			for _, v := range a {
				lp = encoding.EncodeBytes(lp, v)
			}
			rest := lp
			for j := range a {
				var v []byte
				var err error
				rest, v, err = encoding.DecodeBytes(rest)
				if err != nil || !bytes.Equal(v, a[j]) {
					s.Violation("roundtrip:EncodeBytes:"+kind, map[string]any{"elem": j, "err": fmt.Sprint(err)})
					break
				}
			}
			s.Count("rt.lenprefixed", 1)
			addSeed("lenprefixed", seedEnc{b: lp})

			raw := bytes.Join(a, []byte{'/'})
			z := zstd.Compress(nil, raw, 1)
			back, err := zstd.Decompress(nil, z)
			s.Case(fmt.Sprintf("zstd/%x", z), len(raw) >= 2)
			s.Count("rt.zstd", 1)
			if err != nil || !bytes.Equal(back, raw) {
				s.Violation("roundtrip:zstd:"+kind, map[string]any{"len": len(raw), "err": fmt.Sprint(err)})
			}
			addSeed("zstd", seedEnc{b: z})
		}
		// 7. tag value marshaling (entity/series encoding of typed values)
		{
			k := r.Intn(5) + 1
			tags := make([]*modelv1.TagValue, k)
			for j := range tags {
				tags[j] = genTagValue(r)
			}
			enc, err := pbv1.MarshalTagValues(nil, tags)
			if err != nil {
				s.Violation("roundtrip:MarshalTagValues:error", map[string]any{"err": err.Error()})
				continue
			}
			_, got, uerr := pbv1.UnmarshalTagValues(nil, nil, append([]byte(nil), enc...))
			s.Case(fmt.Sprintf("tagvalues/%x", enc), bytes.ContainsAny(enc[1:], "|\\") && k >= 2)
			s.Count("rt.tagvalues", 1)
			if uerr != nil || len(got) != len(tags) {
				s.Violation("roundtrip:MarshalTagValues:shape", map[string]any{"enc": short(enc), "err": fmt.Sprint(uerr), "want": len(tags), "got": len(got)})
			} else {
				for j := range tags {
					if !tagEquivalent(tags[j], got[j]) {
						s.Violation("roundtrip:MarshalTagValues:value", map[string]any{"enc": short(enc), "index": j, "want": tags[j].String(), "got": got[j].String()})
						break
					}
				}
			}
			addSeed("tagvalues", seedEnc{b: enc})
		}
	}
}

func genTagValue(r *rand.Rand) *modelv1.TagValue {
	switch r.Intn(5) {
	case 0:
		return pbv1.NullTagValue
	case 1:
		b := byteAtoms[r.Intn(len(byteAtoms))]
		if r.Intn(2) == 0 {
			b = []byte(strings.Repeat(string(byteAtoms[r.Intn(len(byteAtoms))]), r.Intn(4)) + "x|y\\z"[:r.Intn(6)])
		}
		return &modelv1.TagValue{Value: &modelv1.TagValue_Str{Str: &modelv1.Str{Value: string(b)}}}
	case 2:
		return &modelv1.TagValue{Value: &modelv1.TagValue_Int{Int: &modelv1.Int{Value: pickInt(r)}}}
	case 3:
		b := make([]byte, r.Intn(12))
		for i := range b {
			b[i] = "|\\\x00a\xff"[r.Intn(5)]
		}
		return &modelv1.TagValue{Value: &modelv1.TagValue_BinaryData{BinaryData: b}}
	default:
		sec := int64(r.Intn(4_000_000_000))
		return &modelv1.TagValue{Value: &modelv1.TagValue_Timestamp{Timestamp: &timestamppb.Timestamp{Seconds: sec, Nanos: int32(r.Intn(1e9))}}}
	}
}

// tagEquivalent: exact, except that the API documents empty string / empty bytes as reading back null.
func tagEquivalent(w, g *modelv1.TagValue) bool {
	isNull := func(t *modelv1.TagValue) bool {
		switch v := t.Value.(type) {
		case *modelv1.TagValue_Null:
			return true
		case *modelv1.TagValue_Str:
			return v.Str.Value == ""
		case *modelv1.TagValue_BinaryData:
			return len(v.BinaryData) == 0
		}
		return false
	}
	if isNull(w) || isNull(g) {
		return isNull(w) && isNull(g)
	}
	switch v := w.Value.(type) {
	case *modelv1.TagValue_Str:
		x, ok := g.Value.(*modelv1.TagValue_Str)
		return ok && x.Str.Value == v.Str.Value
	case *modelv1.TagValue_Int:
		x, ok := g.Value.(*modelv1.TagValue_Int)
		return ok && x.Int.Value == v.Int.Value
	case *modelv1.TagValue_BinaryData:
		x, ok := g.Value.(*modelv1.TagValue_BinaryData)
		return ok && bytes.Equal(x.BinaryData, v.BinaryData)
	case *modelv1.TagValue_Timestamp:
		x, ok := g.Value.(*modelv1.TagValue_Timestamp)
		return ok && x.Timestamp.Seconds*1e9+int64(x.Timestamp.Nanos) == v.Timestamp.Seconds*1e9+int64(v.Timestamp.Nanos)
	}
	return false
}

// held is the previous decoded column: it was produced with its own decoder and must stay intact while
// later columns are decoded (readers hold several decoded columns of a block at once).
var held struct {
	want, got [][]byte
	kind      string
}

func tagRoundTrip(s *verifh.Sink, vals [][]byte, vt pbv1.ValueType, kind string) {
	defer func() {
		if held.want != nil && vt == pbv1.ValueTypeStr {
			if idx, ok := sameBytesList(held.want, held.got); !ok {
				s.Violation("roundtrip:EncodeTagValues:decoded-column-changed-by-later-decode", map[string]any{"held_kind": held.kind, "later_kind": kind, "index": idx, "want": hexList(held.want, idx), "now": hexList(held.got, idx)})
				held.want = nil
			}
		}
	}()
	bb := &pkgbytes.Buffer{}
	mt, err := tagenc.EncodeTagValues(bb, vals, vt)
	if err != nil {
		s.Violation("roundtrip:EncodeTagValues:error:"+kind, map[string]any{"err": err.Error()})
		return
	}
	enc := append([]byte(nil), bb.Buf...)
	var dec encoding.BytesBlockDecoder
	got, derr := tagenc.DecodeTagValues(nil, &dec, &pkgbytes.Buffer{Buf: append([]byte(nil), enc...)}, vt, len(vals))
	s.Case(fmt.Sprintf("tagcol/%d/%s/%x", vt, kind, enc), len(vals) >= 2 && mt != encoding.EncodeTypeConst)
	s.Count(fmt.Sprintf("rt.tagcolumn.type%d.mode%d", vt, mt), 1)
	if vt == pbv1.ValueTypeStr && len(vals) <= 300 && derr == nil { // dictionary/plain columns: the ones whose values alias decoder memory
		if _, ok := sameBytesList(vals, got); ok {
			held.want, held.got, held.kind = vals, got, kind
			s.Count("rt.tagcolumn.held_and_rechecked", 1)
		}
	}
	if idx, ok := sameBytesList(vals, got); derr != nil || !ok {
		cls := kind
		if vt == pbv1.ValueTypeFloat64 && idx >= 0 && idx < len(vals) && len(vals[idx]) == 8 {
			cls = "float:" + floatClass(convert.BytesToFloat64(vals[idx]))
		}
		s.Violation("roundtrip:EncodeTagValues:"+cls, map[string]any{"type": vt, "mode": mt, "len": len(vals), "index": idx, "want": hexList(vals, idx), "got": hexList(got, idx), "err": fmt.Sprint(derr)})
	}
}

// floatClass names the input class of a float for violation keys.
func floatClass(f float64) string {
	switch {
	case math.IsNaN(f):
		return "nan"
	case math.IsInf(f, 0):
		return "inf"
	case f == 0 && math.Signbit(f):
		return "negzero"
	case f == 0:
		return "zero"
	case math.Abs(f) < 2.2250738585072014e-308:
		return "subnormal"
	}
	return "finite"
}

func equalInts(a, b []int64) bool {
	if len(a) != len(b) {
		return false
	}
	for i := range a {
		if a[i] != b[i] {
			return false
		}
	}
	return true
}

func equalUints(a, b []uint64) bool {
	if len(a) != len(b) {
		return false
	}
	for i := range a {
		if a[i] != b[i] {
			return false
		}
	}
	return true
}

func clip[T any](a []T) []T {
	if len(a) > 8 {
		return a[:8]
	}
	return a
}

// ---- hostile bytes --------------------------------------------------------------------------------------

type hostileState struct {
	curStart atomic.Int64 // monotonic ns when the current call started (0 = idle)
	curAlloc atomic.Uint64
	curName  atomic.Value
}

// allocBytes is the cumulative number of heap bytes allocated by the process (no stop-the-world).
func allocBytes() uint64 {
	s := []metrics.Sample{{Name: "/gc/heap/allocs:bytes"}}
	metrics.Read(s)
	return s[0].Value.Uint64()
}

// cpuNanos is the CPU time of the calling OS thread (the harness goroutine is locked to its thread), so
// garbage collection and other goroutines running in parallel are not billed to the decoder under test.
func cpuNanos() int64 {
	var ru syscall.Rusage
	syscall.Getrusage(1 /* RUSAGE_THREAD */, &ru)
	return ru.Utime.Nano() + ru.Stime.Nano()
}

func mutate(r *rand.Rand, seeds []seedEnc) (seedEnc, string) {
	s := seeds[r.Intn(len(seeds))]
	b := append([]byte(nil), s.b...)
	kind := r.Intn(10)
	names := []string{"bitflip", "truncate", "setbyte", "insert", "splice", "hugevarint", "random", "zerofill", "dupchunk", "count"}
	switch kind {
	case 0:
		if len(b) > 0 {
			for k := r.Intn(3) + 1; k > 0; k-- {
				b[r.Intn(len(b))] ^= 1 << uint(r.Intn(8))
			}
		}
	case 1:
		if len(b) > 0 {
			b = b[:r.Intn(len(b))]
		}
	case 2:
		if len(b) > 0 {
			b[r.Intn(len(b))] = []byte{0, 1, 0x7f, 0x80, 0xfe, 0xff}[r.Intn(6)]
		}
	case 3:
		ins := make([]byte, r.Intn(9)+1)
		r.Read(ins)
		p := r.Intn(len(b) + 1)
		b = append(b[:p:p], append(ins, b[p:]...)...)
	case 4:
		o := seeds[r.Intn(len(seeds))].b
		if len(b) > 0 && len(o) > 0 {
			b = append(b[:r.Intn(len(b))], o[r.Intn(len(o)):]...)
		}
	case 5:
		huge := [][]byte{
			{0xff, 0xff, 0xff, 0xff, 0xff, 0xff, 0xff, 0xff, 0xff, 0x01},
			{0xff, 0xff, 0xff, 0xff, 0x07}, {0x80, 0x80, 0x80, 0x80, 0x80, 0x80, 0x80, 0x80, 0x80, 0x80, 0x80, 0x01},
			{0xff, 0xff, 0xff, 0xff, 0xff, 0xff, 0xff, 0xff, 0x7f}, {0xff, 0xff, 0xff, 0xff},
		}[r.Intn(5)]
		p := 0
		if len(b) > 0 {
			p = r.Intn(min(len(b), 12))
		}
		b = append(b[:p:p], append(huge, b[min(len(b), p+len(huge)):]...)...)
	case 6:
		b = make([]byte, r.Intn(64))
		r.Read(b)
	case 7:
		if len(b) > 1 {
			p := r.Intn(len(b))
			for i := p; i < len(b) && i < p+8; i++ {
				b[i] = 0
			}
		}
	case 8:
		if len(b) > 1 {
			p := r.Intn(len(b))
			b = append(b[:p:p], b[max(0, p-r.Intn(p+1)):]...)
		}
	case 9:
		// same bytes, different (valid-range) item count from the block metadata side channel
		s.count = []int{1, 2, 3, s.count + 1, max(2, s.count-1), 8192}[r.Intn(6)]
	}
	s.b = b
	return s, names[kind]
}

var epoch = time.Now()

func hostile(s *verifh.Sink, t *testing.T) {
	runtime.LockOSThread()
	defer runtime.UnlockOSThread()
	scratch := verifh.Scratch()
	cur, err := os.OpenFile(filepath.Join(scratch, "current-input.bin"), os.O_CREATE|os.O_RDWR, 0o644)
	if err != nil {
		t.Fatal(err)
	}
	defer cur.Close()
	var st hostileState
	st.curName.Store("")
	stop := make(chan struct{})
	// watchdog: runaway allocation or CPU on one small input is a violation; the process cannot continue safely.
	go func() {
		for {
			select {
			case <-stop:
				return
			case <-time.After(100 * time.Millisecond):
			}
			start := st.curStart.Load()
			if start == 0 {
				continue
			}
			alloc := allocBytes() - st.curAlloc.Load()
			cpu := time.Since(epoch).Nanoseconds() - start // wall time of one call: only a real hang reaches the limit
			if st.curStart.Load() != start {
				continue // the call returned meanwhile
			}
			if alloc > 4<<30 || cpu > int64(300*time.Second) {
				name, _ := st.curName.Load().(string)
				in, _ := os.ReadFile(filepath.Join(scratch, "current-input.bin"))
				if alloc > 4<<30 && cpu <= int64(300*time.Second) && zstdDeclared(in, uint64(32<<20)) != "" {
					// the recorded zstd finding (the library allocates the size a frame header declares): whether this
					// sampler sees the allocation mid-call depends on how slow the machine is; the call is left to
					// finish and is judged, and attributed, by the per-call bound below
					continue
				}
				why := "unbounded-allocation"
				if alloc <= 4<<30 {
					why = "cpu-hang"
				}
				s.Violation("hostile:"+name+":"+why, map[string]any{"allocated_in_call": alloc, "wall_ns": cpu, "input": hex.EncodeToString(in[:min(len(in), 4096)]), "input_len": len(in)})
				s.Done()
				os.Exit(0)
			}
		}
	}()
	defer close(stop)

	call := func(name string, in seedEnc, mut string, f func() error) {
		hdr := fmt.Sprintf("%s count=%d mt=%d first=%d len=%d\n", name, in.count, in.mt, in.first, len(in.b))
		cur.Truncate(0)
		cur.WriteAt(append([]byte(hdr), in.b...), 0)
		st.curName.Store(name)
		a0 := allocBytes()
		st.curAlloc.Store(a0)
		c0 := cpuNanos()
		st.curStart.Store(time.Since(epoch).Nanoseconds() | 1)
		var perr any
		var stack string
		var rerr error
		func() {
			defer func() {
				if p := recover(); p != nil {
					perr = p
					stack = string(debug.Stack())
				}
			}()
			rerr = f()
		}()
		st.curStart.Store(0)
		c1 := cpuNanos()
		allocated := allocBytes() - a0
		s.Case(name+"/"+hex.EncodeToString(in.b)+fmt.Sprint(in.count, in.mt), len(in.b) >= 1)
		s.Count("hostile."+name+".calls", 1)
		s.Count("hostile.mutation."+mut, 1)
		if rerr != nil {
			s.Count("hostile."+name+".errors", 1)
		} else if perr == nil {
			s.Count("hostile."+name+".values", 1)
		}
		if perr != nil {
			site := panicSite(stack)
			s.Violation("hostile:"+name+":panic@"+site, map[string]any{"panic": fmt.Sprint(perr), "mutation": mut, "count": in.count, "mode": in.mt, "first": in.first,
				"input": hex.EncodeToString(in.b[:min(len(in.b), 2048)]), "input_len": len(in.b), "stack": clipStr(stack, 1800)})
		}
		if c1-c0 > int64(10*time.Second) {
			// A decoder that burns CPU on an input does so every time; collector assists, page faults and a loaded
			// machine do not repeat. The verdict is the cheapest of three runs of the very same call.
			best := c1 - c0
			for k := 0; k < 2 && perr == nil; k++ {
				st.curStart.Store(time.Since(epoch).Nanoseconds() | 1)
				r0 := cpuNanos()
				func() {
					defer func() { _ = recover() }()
					_ = f()
				}()
				best = min(best, cpuNanos()-r0)
				st.curStart.Store(0)
			}
			s.Count("hostile.cpu_remeasured", 1)
			if best > int64(10*time.Second) {
				os.WriteFile(filepath.Join(scratch, "cpu-input-"+name+".bin"), append([]byte(hdr), in.b...), 0o644)
				s.Violation(zstdKey(name, "cpu", in.b), map[string]any{"cpu_ns_best_of_3": best, "cpu_ns_first": c1 - c0, "input_len": len(in.b), "input": hex.EncodeToString(in.b[:min(len(in.b), 2048)])})
			}
		}
		bound := uint64(64<<20) + 64*uint64(len(in.b)+in.count)
		if d := allocated; d > bound {
			s.Violation(zstdKey(name, "alloc", in.b), map[string]any{"allocated": d, "bound": bound, "count": in.count, "input": hex.EncodeToString(in.b[:min(len(in.b), 2048)])})
		}
	}

	n := verifh.Pick(12000, 60000)
	decoders := []string{"int64list", "varint64", "varuint64", "uint64block", "bytesblock", "dictionary", "dictvalues", "vararray", "lenprefixed", "zstd", "tagvalues", "bytesblocktail"}
	seedOf := map[string]string{"dictvalues": "dictionary", "bytesblocktail": "bytesblock"}
	for i := 0; i < n; i++ {
		r := verifh.Rand("c11hostile", i)
		for _, name := range decoders {
			src := name
			if v, ok := seedOf[name]; ok {
				src = v
			}
			seeds := corpus[src]
			if len(seeds) == 0 {
				continue
			}
			in, mut := mutate(r, seeds)
			if in.count > 8193 {
				in.count = 8193
			}
			switch name {
			case "int64list":
				mt := in.mt
				if r.Intn(4) == 0 {
					mt = encoding.EncodeType(r.Intn(8))
				}
				cnt := in.count
				if cnt < 2 { // precondition of the delta decoders (count comes from block metadata, validated there)
					cnt = 2
				}
				first := in.first
				if r.Intn(4) == 0 {
					first = pickInt(r)
				}
				in.mt, in.count, in.first = mt, cnt, first
				call(name, in, mut, func() error {
					_, err := encoding.BytesToInt64List(nil, in.b, mt, first, cnt)
					return err
				})
			case "varint64":
				call(name, in, mut, func() error {
					_, err := encoding.BytesToVarInt64List(make([]int64, in.count), in.b)
					return err
				})
			case "varuint64":
				call(name, in, mut, func() error {
					_, err := encoding.BytesToVarUint64s(make([]uint64, in.count), in.b)
					encoding.BytesToVarUint64(in.b)
					return err
				})
			case "uint64block":
				call(name, in, mut, func() error {
					_, _, err := encoding.DecodeUint64Block(nil, in.b, uint64(in.count))
					return err
				})
			case "bytesblock":
				call(name, in, mut, func() error {
					var d encoding.BytesBlockDecoder
					_, err := d.Decode(nil, in.b, uint64(in.count))
					return err
				})
			case "bytesblocktail":
				call(name, in, mut, func() error {
					var d encoding.BytesBlockDecoder
					_, _, err := d.DecodeWithTail(nil, in.b, uint64(in.count))
					return err
				})
			case "dictionary":
				call(name, in, mut, func() error {
					d := encoding.NewDictionary()
					_, err := d.Decode(nil, in.b, uint64(in.count))
					return err
				})
			case "dictvalues":
				call(name, in, mut, func() error {
					_, err := encoding.DecodeDictionaryValues(in.b)
					return err
				})
			case "vararray":
				call(name, in, mut, func() error {
					buf := append([]byte(nil), in.b...)
					idx := 0
					for steps := 0; idx < len(buf) && steps <= len(buf); steps++ {
						_, next, err := vararray.UnmarshalVarArray(buf, idx)
						if err != nil {
							return err
						}
						if next <= idx {
							return fmt.Errorf("no progress")
						}
						idx = next
					}
					return nil
				})
			case "lenprefixed":
				call(name, in, mut, func() error {
					rest := in.b
					for steps := 0; len(rest) > 0 && steps <= len(in.b); steps++ {
						var err error
						before := len(rest)
						rest, _, err = encoding.DecodeBytes(rest)
						if err != nil {
							return err
						}
						if len(rest) >= before {
							return fmt.Errorf("no progress")
						}
					}
					return nil
				})
			case "zstd":
				call(name, in, mut, func() error {
					_, err := zstd.Decompress(nil, in.b)
					return err
				})
			case "tagvalues":
				call(name, in, mut, func() error {
					_, _, err := pbv1.UnmarshalTagValues(nil, nil, append([]byte(nil), in.b...))
					return err
				})
			}
		}
	}

	// Well-framed hostile inputs: every layer in front of the attacked field is valid, so the bounds checks behind
	// it are actually reached (a mutated real encoding almost never keeps the framing intact). A bytes block is
	// "uint64 block of lengths (stored +1) || compressed payload": the lengths list is re-encoded with the real
	// encoder from hostile values and glued to the intact payload of a real block.
	nf := verifh.Pick(1500, 8000)
	for i := 0; i < nf; i++ {
		r := verifh.Rand("c11framed", i)
		n := 1 + r.Intn(6)
		if r.Intn(8) == 0 {
			n = 1 + r.Intn(300)
		}
		items := make([][]byte, n)
		realLens := make([]uint64, n)
		total := 0
		for k := range items {
			items[k] = make([]byte, r.Intn(12))
			r.Read(items[k])
			realLens[k] = uint64(len(items[k])) + 1
			total += len(items[k])
		}
		real := encoding.EncodeBytesBlock(nil, items)
		payload := real[len(encoding.EncodeUint64Block(nil, realLens)):]
		lens := append([]uint64(nil), realLens...)
		for m := 1 + r.Intn(2); m > 0; m-- {
			k := r.Intn(n)
			switch r.Intn(9) {
			case 0:
				lens[k] = 1 << 63
			case 1:
				lens[k] = 1<<63 + uint64(r.Intn(16))
			case 2:
				lens[k] = math.MaxUint64
			case 3:
				lens[k] = math.MaxUint64 - uint64(r.Intn(16))
			case 4:
				lens[k] = uint64(total) + 1 + uint64(r.Intn(3)) // up to two bytes past the payload
			case 5:
				lens[k] = 1<<32 + uint64(r.Intn(4))
			case 6:
				lens[k] = 1<<31 + uint64(r.Intn(4))
			case 7:
				lens[k] = uint64(r.Int63()) | 1<<62
			case 8:
				lens[k] = 0
			}
		}
		in := seedEnc{b: append(encoding.EncodeUint64Block(nil, lens), payload...), count: n}
		cnt := uint64(n)
		call("bytesblock", in, "framed-lengths", func() error {
			var d encoding.BytesBlockDecoder
			_, err := d.Decode(nil, in.b, cnt)
			return err
		})
		tailed := seedEnc{b: append(append([]byte(nil), in.b...), byte(r.Intn(256)), byte(r.Intn(256))), count: n}
		call("bytesblocktail", tailed, "framed-lengths", func() error {
			var d encoding.BytesBlockDecoder
			_, _, err := d.DecodeWithTail(nil, tailed.b, cnt)
			return err
		})
		s.Count("hostile.framed_bytes_blocks", 1)
	}
}

// zstdDeclared attributes an over-allocation to the zstd layer when the input holds a zstd frame whose header
// declares a decoded size above the bound (the library pre-allocates the declared size).
func zstdDeclared(in []byte, bound uint64) string {
	magic := []byte{0x28, 0xb5, 0x2f, 0xfd}
	for off := 0; ; {
		p := bytes.Index(in[off:], magic)
		if p < 0 {
			return ""
		}
		var h kzstd.Header
		if err := h.Decode(in[off+p:]); err == nil && h.HasFCS && h.FrameContentSize > bound {
			return ":zstd-frame-declares-size"
		}
		off += p + 4
	}
}

// zstdKey names an alloc/cpu violation; when the input carries a zstd frame declaring an oversized decoded
// length the violation is attributed to that (known) library pre-allocation instead of the decoder itself.
func zstdKey(name, what string, in []byte) string {
	// a frame that declares 32 MiB or more explains an allocation above the 64 MiB budget (the library
	// allocates the declared size, the decoder around it a copy)
	if zstdDeclared(in, uint64(32<<20)) != "" {
		return "hostile:zstd-declared-size:" + name + ":" + what
	}
	return "hostile:" + name + ":" + what
}

func clipStr(s string, n int) string {
	if len(s) > n {
		return s[:n]
	}
	return s
}

// panicSite returns "file.go:func" of the first repository frame below the panic (line numbers stripped
// so that the key survives unrelated edits).
func panicSite(stack string) string {
	lines := strings.Split(stack, "\n")
	seenPanic := false
	for i := 0; i+1 < len(lines); i++ {
		l := lines[i]
		if strings.HasPrefix(l, "panic(") {
			seenPanic = true
			continue
		}
		if !seenPanic {
			continue
		}
		if strings.Contains(l, "skywalking-banyandb/") && !strings.Contains(lines[i+1], "_test.go") {
			fn := l
			if p := strings.LastIndex(fn, "("); p > 0 {
				fn = fn[:p]
			}
			if p := strings.LastIndex(fn, "/"); p >= 0 {
				fn = fn[p+1:]
			}
			return fn
		}
	}
	return "unknown"
}

func TestVerifC11(t *testing.T) {
	s := verifh.S()
	roundTrips(s)
	if os.Getenv("VERIF_C11_SKIP_HOSTILE") == "" {
		hostile(s, t)
	}
	s.Done()
}
