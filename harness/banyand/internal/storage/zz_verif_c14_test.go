package storage

// C14 — a segment is never closed or deleted while in use, and never leaks.
// (1) every operation sequence up to a fixed length on one segment against a 10-line reference model;
// (2) concurrent histories recorded at the call boundary, checked per segment with porcupine against the same
//     model, while every holder keeps asserting that what it holds is open and on disk;
// (3) at quiescence: no reference left behind (idle close succeeds, delete removes the directory).

import (
	"context"
	"errors"
	"fmt"
	"math"
	"os"
	"path/filepath"
	"runtime"
	"sync"
	"sync/atomic"
	"testing"
	"time"

	"github.com/anishathalye/porcupine"

	"github.com/apache/skywalking-banyandb/pkg/timestamp"
	"github.com/apache/skywalking-banyandb/pkg/verifh"
)

type segModel struct {
	ref     int
	open    bool
	flagged bool // selected for deletion
	dir     bool
}

type segObs struct {
	open bool
	dir  bool
}

func observe(s *segment[*vTable, any]) segObs {
	s.mu.RLock()
	open := s.index != nil
	s.mu.RUnlock()
	_, err := os.Stat(s.location)
	return segObs{open: open, dir: err == nil}
}

// ops of the sequential enumeration
const (
	opAcquire   = iota // a real read: selectSegments(reopen) / incRef
	opRelease          // DecRef of one held reference
	opIdle             // the idle reclaimer visits the segment
	opDelete           // retention selects the segment for deletion
	opPeek             // read-only stats pass: selectSegments(no reopen) + DecRef
	opHousekeep        // retention pass that does not delete: segments(false) + DecRef on each
	nOps
)

var opNames = []string{"acquire", "release", "idle-close", "delete", "stats-peek", "retention-pass"}

func newOneSegmentDB(base string, at time.Time) (*vdb, *segment[*vTable, any], error) {
	clock := timestamp.NewMockClock()
	clock.Set(at)
	v, err := openVDB(freshVDir(base), clock, dbOpts{interval: IntervalRule{HOUR, 1}, ttl: IntervalRule{DAY, 7}})
	if err != nil {
		return nil, nil, err
	}
	seg, err := v.db.CreateSegmentIfNotExist(time.Unix(0, at.UnixNano()))
	if err != nil {
		return nil, nil, err
	}
	seg.DecRef()
	return v, v.sc.copySegments()[0], nil
}

// apply runs one operation on the real segment and on the model; returns a discrepancy or "".
func applySeq(v *vdb, s *segment[*vTable, any], m *segModel, op int, holders *int) string {
	tr := timestamp.NewInclusiveTimeRange(s.Start, s.End)
	switch op {
	case opAcquire:
		var err error
		if m.flagged {
			// no longer listed: a caller still holding the pointer (e.g. from an earlier list copy) tries to re-acquire
			err = s.incRef(context.Background())
			if m.ref == 0 {
				if err == nil {
					return "a segment selected for deletion with no holder was re-opened"
				}
				return ""
			}
		} else {
			segs, e := v.sc.selectSegments(tr, true)
			err = e
			if e == nil && len(segs) != 1 {
				return fmt.Sprintf("selectSegments returned %d segments for the segment's own range", len(segs))
			}
		}
		if err != nil {
			return "acquire failed: " + err.Error()
		}
		m.ref++
		m.open = true
		*holders++
	case opRelease:
		if *holders == 0 {
			return ""
		}
		s.DecRef()
		*holders--
		m.ref--
		if m.ref == 0 && m.flagged {
			m.open, m.dir = false, false
		}
	case opIdle:
		closed := s.closeIfIdle(math.MaxInt64)
		want := m.open && m.ref == 0 && !m.flagged
		if closed != want {
			return fmt.Sprintf("idle close returned %v, model expects %v (ref=%d open=%v flagged=%v)", closed, want, m.ref, m.open, m.flagged)
		}
		if closed {
			m.open = false
		}
	case opDelete:
		if m.flagged {
			return ""
		}
		if _, err := v.sc.remove(time.Date(2100, 1, 1, 0, 0, 0, 0, time.UTC)); err != nil {
			return "remove failed: " + err.Error()
		}
		m.flagged = true
		if m.ref == 0 {
			m.open, m.dir = false, false
		}
	case opPeek:
		if m.flagged {
			return ""
		}
		segs, err := v.sc.selectSegments(tr, false)
		if err != nil {
			return "stats peek failed: " + err.Error()
		}
		for _, x := range segs {
			x.DecRef()
		}
	case opHousekeep:
		if _, err := v.sc.remove(time.Unix(0, 1)); err != nil { // deadline in 1970: nothing expires
			return "retention pass failed: " + err.Error()
		}
	}
	o := observe(s)
	if o.open != m.open || o.dir != m.dir {
		return fmt.Sprintf("after %s: observed open=%v dir=%v, model open=%v dir=%v (ref=%d flagged=%v)", opNames[op], o.open, o.dir, m.open, m.dir, m.ref, m.flagged)
	}
	if got := int(atomic.LoadInt32(&s.refCount)); got != m.ref {
		return fmt.Sprintf("after %s: reference count %d, model %d", opNames[op], got, m.ref)
	}
	if m.ref > 0 && (!o.open || !o.dir) {
		return fmt.Sprintf("after %s: %d holder(s) but open=%v dir=%v", opNames[op], m.ref, o.open, o.dir)
	}
	return ""
}

func sequential(s *verifh.Sink, base string) {
	maxLen := verifh.Pick(4, 6)
	at := time.Date(2024, 5, 10, 3, 0, 0, 0, time.UTC)
	var seq []int
	var count int64
	var rec func()
	rec = func() {
		if len(seq) > 0 {
			count++
			v, seg, err := newOneSegmentDB(base, at)
			if err != nil {
				s.Violation("c14:setup", map[string]any{"err": err.Error()})
				return
			}
			m := &segModel{ref: 0, open: true, dir: true}
			holders := 0
			names := make([]string, len(seq))
			bad := ""
			interesting := false
			for i, op := range seq {
				names[i] = opNames[op]
				if op == opDelete || op == opIdle {
					interesting = true
				}
				if p := safely(func() { bad = applySeq(v, seg, m, op, &holders) }); p != "" {
					bad = "panic: " + p
				}
				if bad != "" {
					bad = fmt.Sprintf("step %d (%s): %s", i, opNames[op], bad)
					break
				}
			}
			// quiescence: release everything; nothing may keep the segment from idle-closing / being deleted
			if bad == "" {
				for holders > 0 {
					seg.DecRef()
					holders--
					m.ref--
				}
				if m.flagged {
					if o := observe(seg); o.open || o.dir {
						bad = fmt.Sprintf("selected for deletion and all holders gone, but open=%v dir=%v", o.open, o.dir)
					}
				} else {
					seg.closeIfIdle(math.MaxInt64)
					if o := observe(seg); o.open {
						bad = "all holders released but idle close is refused: a reference leaked"
					}
					// transparent reopen with the directory intact
					if err := seg.incRef(context.Background()); err != nil || !observe(seg).open {
						bad = fmt.Sprintf("idle-closed segment does not reopen: %v", err)
					} else {
						seg.DecRef()
					}
				}
			}
			s.Case(fmt.Sprint("seq/", names), interesting)
			if count <= 2 {
				s.Sample(map[string]any{"sequence": names, "oracle": "observable state (index open, directory, reference count) equals the reference model after every step"})
			}
			if bad != "" {
				s.Violation(fmt.Sprintf("c14:sequential:%v", names), map[string]any{"sequence": names, "discrepancy": bad})
			}
			dir := v.dir
			v.db.Close()
			os.RemoveAll(dir)
		}
		if len(seq) == maxLen {
			return
		}
		for op := 0; op < nOps; op++ {
			seq = append(seq, op)
			rec()
			seq = seq[:len(seq)-1]
		}
	}
	rec()
	s.Count("c14.sequences_enumerated", count)
}

// ---- concurrent ------------------------------------------------------------------------------------------

type cIn struct {
	op  string
	seg int
}

type cOut struct {
	ok   bool // acquire: succeeded; idle: closed
	open bool // observe
}

var lclock, retentionPasses, statsPeeks, statsPeeksOverlapped atomic.Int64

func concurrent(s *verifh.Sink, base string) {
	// relaxed is set for the rounds that run beside a statistics peeker. The peeker legitimately pins a segment that is in use
	// (CAS while the count is above zero) and may still hold that pin after the recorded holders released theirs; it is not part
	// of the history, so in those rounds an idle-close that declines, and an acquire that still succeeds on a flagged segment,
	// are both legal. What stays illegal: an idle-close that succeeds, or a refusal, while a recorded holder holds.
	relaxed := false
	model := porcupine.Model{
		Partition: func(h []porcupine.Operation) [][]porcupine.Operation {
			by := map[int][]porcupine.Operation{}
			for _, o := range h {
				k := o.Input.(cIn).seg
				by[k] = append(by[k], o)
			}
			var out [][]porcupine.Operation
			for _, v := range by {
				out = append(out, v)
			}
			return out
		},
		Init: func() any { return segModel{open: true, dir: true} },
		Step: func(st, in, out any) (bool, any) {
			m := st.(segModel)
			i, o := in.(cIn), out.(cOut)
			switch i.op {
			case "acquire":
				if m.flagged && m.ref == 0 && !(relaxed && o.ok) {
					return !o.ok, m
				}
				if !o.ok {
					return m.flagged, m // refusing is legal only once the segment is selected for deletion
				}
				m.ref++
				m.open = true
				return true, m
			case "release":
				m.ref--
				if m.ref < 0 {
					return false, m
				}
				if m.ref == 0 && m.flagged {
					m.open, m.dir = false, false
				}
				return true, m
			case "idle":
				want := m.open && m.ref == 0 && !m.flagged
				if relaxed && !o.ok {
					return true, m
				}
				if o.ok != want {
					return false, m
				}
				if o.ok {
					m.open = false
				}
				return true, m
			case "delete":
				m.flagged = true
				if m.ref == 0 {
					m.open, m.dir = false, false
				}
				return true, m
			case "observe":
				return o.open == m.open, m
			}
			return false, m
		},
		Equal: func(a, b any) bool { return a.(segModel) == b.(segModel) },
		DescribeOperation: func(in, out any) string {
			return fmt.Sprintf("%v -> %v", in, out)
		},
	}
	rounds := verifh.Pick(60, 1500)
	peekRounds := verifh.Pick(40, 600) // further rounds, run beside a statistics peeker (relaxed model, see above)
	var overlapped, checked, illegal, unknown int64
	for round := 0; round < rounds+peekRounds; round++ {
		withPeeker := round >= rounds && os.Getenv("VERIF_C14_NO_PEEKER") == ""
		relaxed = withPeeker
		r := verifh.Rand("c14conc", round)
		clock := timestamp.NewMockClock()
		at := time.Date(2024, 5, 10, 3, 0, 0, 0, time.UTC)
		clock.Set(at)
		v, err := openVDB(freshVDir(base), clock, dbOpts{interval: IntervalRule{HOUR, 1}, ttl: IntervalRule{DAY, 7}})
		if err != nil {
			s.Violation("c14:setup", map[string]any{"err": err.Error()})
			continue
		}
		nSeg := 1 + r.Intn(3)
		for i := 0; i < nSeg; i++ {
			sg, err := v.db.CreateSegmentIfNotExist(time.Unix(0, at.Add(time.Duration(i)*time.Hour).UnixNano()))
			if err == nil {
				sg.DecRef()
			}
		}
		segs := v.sc.copySegments()
		var mu sync.Mutex
		var hist []porcupine.Operation
		record := func(client int, in cIn, call int64, out cOut) {
			ret := lclock.Add(1)
			mu.Lock()
			hist = append(hist, porcupine.Operation{ClientId: client, Input: in, Call: call, Output: out, Return: ret})
			mu.Unlock()
		}
		var liveness atomic.Value
		var wg sync.WaitGroup
		deleted := make([]atomic.Bool, nSeg)
		G := 3 + r.Intn(3)
		for g := 0; g < G; g++ {
			wg.Add(1)
			seed := r.Int63()
			go func(g int) {
				defer wg.Done()
				rr := verifh.Rand(fmt.Sprint("c14g", seed), g)
				held := make([]int, nSeg)
				for step := 0; step < 40; step++ {
					k := rr.Intn(nSeg)
					sg := segs[k]
					switch op := rr.Intn(10); {
					case op < 4: // acquire by pointer (a query that obtained the segment from a list copy) or through the controller
						call := lclock.Add(1)
						var err error
						if deleted[k].Load() || rr.Intn(2) == 0 {
							err = sg.incRef(context.Background())
						} else {
							var got []Segment[*vTable, any]
							got, err = v.sc.selectSegments(timestamp.NewInclusiveTimeRange(sg.Start, sg.Start.Add(time.Minute)), true)
							if err == nil && len(got) == 0 {
								err = errors.New("not listed")
							}
							for i := 1; i < len(got); i++ {
								got[i].DecRef()
							}
						}
						record(g, cIn{"acquire", k}, call, cOut{ok: err == nil})
						if err == nil {
							held[k]++
						}
					case op < 7:
						if held[k] > 0 {
							// while holding: what is held must be open and on disk
							if o := observe(sg); !o.open || !o.dir {
								liveness.CompareAndSwap(nil, fmt.Sprintf("goroutine %d holds segment %d but observes open=%v dir=%v", g, k, o.open, o.dir))
							}
							call := lclock.Add(1)
							sg.DecRef()
							held[k]--
							record(g, cIn{"release", k}, call, cOut{})
						}
					case op < 8:
						call := lclock.Add(1)
						closed := sg.closeIfIdle(math.MaxInt64)
						record(g, cIn{"idle", k}, call, cOut{ok: closed})
					case op < 9 && k == 0 && !deleted[0].Load() && g == 0: // retention deletes the oldest segment, once
						call := lclock.Add(1)
						v.sc.remove(sg.End.Add(time.Millisecond))
						deleted[0].Store(true)
						record(g, cIn{"delete", 0}, call, cOut{})
					default:
						// the non-deleting retention pass touches every segment's reference count
						if os.Getenv("VERIF_C14_NO_RETENTION_PASS") == "" {
							v.sc.remove(time.Unix(0, 1))
							retentionPasses.Add(1)
						}
					}
				}
				for k := range held {
					for held[k] > 0 {
						call := lclock.Add(1)
						segs[k].DecRef()
						held[k]--
						record(g, cIn{"release", k}, call, cOut{})
					}
				}
			}(g)
		}
		// a metrics/inspection pass running beside them: selectSegments without reopening, look at what came back the way the
		// engines' collectors do (Tables(), a directory listing), then DecRef every returned segment. It holds nothing of its own
		// in the model (net zero), so it is not part of the history; what it must not do is take away a reference of the others.
		peekDone := make(chan struct{})
		var peekWG sync.WaitGroup
		if withPeeker {
			peekWG.Add(1)
			pseed := r.Int63()
			go func() {
				defer peekWG.Done()
				pr := verifh.Rand(fmt.Sprint("c14peek", pseed), 0)
				for {
					select {
					case <-peekDone:
						return
					default:
					}
					before := lclock.Load()
					got, err := v.db.SelectSegments(timestamp.NewInclusiveTimeRange(at.Add(-time.Hour), at.Add(4*time.Hour)), false)
					if err != nil {
						liveness.CompareAndSwap(nil, "stats peek failed: "+err.Error())
						return
					}
					for _, sg := range got {
						sg.Tables()
						for y := pr.Intn(4); y > 0; y-- {
							runtime.Gosched()
						}
					}
					for _, sg := range got {
						sg.DecRef()
					}
					statsPeeks.Add(1)
					if lclock.Load() != before {
						statsPeeksOverlapped.Add(1)
					}
					runtime.Gosched()
				}
			}()
		}
		wg.Wait()
		close(peekDone)
		peekWG.Wait()
		// overlap: some operation was called before another on the same segment returned
		ov := false
		for i := 0; i < len(hist) && !ov; i++ {
			for j := 0; j < len(hist); j++ {
				if i != j && hist[i].Input.(cIn).seg == hist[j].Input.(cIn).seg && hist[i].Call < hist[j].Return && hist[j].Call < hist[i].Return && hist[i].ClientId != hist[j].ClientId {
					ov = true
					break
				}
			}
		}
		if ov {
			overlapped++
		}
		res, info := porcupine.CheckOperationsVerbose(model, hist, 20*time.Second)
		checked++
		s.Case(fmt.Sprintf("conc/%d/%d", round, len(hist)), ov)
		bad := ""
		switch res {
		case porcupine.Illegal:
			illegal++
			bad = "history is not linearizable against the segment model"
		case porcupine.Unknown:
			unknown++
		}
		if l, _ := liveness.Load().(string); l != "" {
			bad = l
		}
		// quiescence: nothing held any more
		if bad == "" {
			for k, sg := range segs {
				if deleted[k].Load() {
					if o := observe(sg); o.open || o.dir {
						bad = fmt.Sprintf("segment %d selected for deletion, all holders released, but open=%v dir=%v", k, o.open, o.dir)
					}
					continue
				}
				if n := atomic.LoadInt32(&sg.refCount); n != 0 {
					bad = fmt.Sprintf("segment %d: reference count %d after every holder released", k, n)
				}
			}
		}
		if bad != "" {
			var ops []string
			for _, o := range hist {
				ops = append(ops, fmt.Sprintf("c%d %v [%d,%d] -> %v", o.ClientId, o.Input, o.Call, o.Return, o.Output))
			}
			if len(ops) > 60 {
				ops = ops[:60]
			}
			_ = info
			s.Violation("c14:concurrent:"+classify(bad), map[string]any{"round": round, "discrepancy": bad, "history_head": ops})
		}
		dir := v.dir
		v.db.Close()
		os.RemoveAll(dir)
	}
	s.Count("c14.concurrent.retention_passes_interleaved", retentionPasses.Load())
	s.Count("c14.concurrent.stats_peeks", statsPeeks.Load())
	s.Count("c14.concurrent.stats_peeks_overlapping_other_ops", statsPeeksOverlapped.Load())
	s.Count("c14.concurrent.histories_checked", checked)
	s.Count("c14.concurrent.histories_with_overlapping_ops", overlapped)
	s.Count("c14.concurrent.porcupine_unknown", unknown)
	if unknown > checked/2 {
		s.Inconclusive("porcupine timed out on most histories")
	}
}

func classify(bad string) string {
	switch {
	case len(bad) > 9 && bad[:9] == "goroutine":
		return "holder-sees-closed-or-deleted-segment"
	case len(bad) > 7 && bad[:7] == "history":
		return "not-linearizable"
	}
	return "leak-or-late-delete"
}

// partial acquisition: a failure in the middle of a multi-segment selection leaves no reference behind.
func partial(s *verifh.Sink, base string) {
	for c := 0; c < verifh.Pick(20, 200); c++ {
		r := verifh.Rand("c14partial", c)
		clock := timestamp.NewMockClock()
		at := time.Date(2024, 5, 10, 3, 0, 0, 0, time.UTC)
		clock.Set(at)
		v, err := openVDB(freshVDir(base), clock, dbOpts{interval: IntervalRule{HOUR, 1}, ttl: IntervalRule{DAY, 7}, shards: 2})
		if err != nil {
			continue
		}
		n := 2 + r.Intn(3)
		for i := 0; i < n; i++ {
			sg, err := v.db.CreateSegmentIfNotExist(time.Unix(0, at.Add(time.Duration(i)*time.Hour).UnixNano()))
			if err == nil {
				sg.CreateTSTableIfNotExist(0) // a shard directory exists, so reopening loads (and can fail on) a table
				sg.DecRef()
			}
		}
		segs := v.sc.copySegments()
		for _, sg := range segs {
			sg.closeIfIdle(math.MaxInt64) // all closed: the next selection must reopen each
		}
		// the k-th reopen fails
		failAt := 1 + r.Intn(n)
		failTableOpen.Store(0)
		var okBefore atomic.Int64
		_ = okBefore
		failAfter := int64(failAt - 1)
		// let the first failAfter tables open, then fail one
		opened0 := tablesOpened.Load()
		go func() {
			for tablesOpened.Load()-opened0 < failAfter {
				time.Sleep(50 * time.Microsecond)
			}
			failTableOpen.Store(1)
		}()
		if failAfter == 0 {
			failTableOpen.Store(1)
		}
		got, err := v.sc.selectSegments(timestamp.NewInclusiveTimeRange(at.Add(-time.Hour), at.Add(24*time.Hour)), true)
		failTableOpen.Store(0)
		s.Case(fmt.Sprintf("partial/%d/%d/%d", c, n, failAt), err != nil)
		if err == nil {
			for _, g := range got {
				g.DecRef()
			}
			s.Count("c14.partial.fault_not_reached", 1)
		} else {
			s.Count("c14.partial.failed_selections", 1)
		}
		bad := ""
		for k, sg := range segs {
			if nref := atomic.LoadInt32(&sg.refCount); nref != 0 {
				bad = fmt.Sprintf("segment %d keeps reference count %d after a failed selection of %d segments (failure at reopen #%d)", k, nref, n, failAt)
			}
		}
		if bad == "" {
			for k, sg := range segs {
				sg.closeIfIdle(math.MaxInt64)
				if observe(sg).open {
					bad = fmt.Sprintf("segment %d cannot be idle-closed after a failed selection", k)
				}
			}
		}
		if bad != "" {
			s.Violation("c14:partial-acquisition-leaks", map[string]any{"discrepancy": bad, "segments": n, "failed_reopen": failAt})
		}
		dir := v.dir
		v.db.Close()
		os.RemoveAll(dir)
	}
}

// reopenVersusDelete: a closed segment is reopened by a reader while retention deletes it. Whoever wins, a
// reader whose acquire succeeded must find the segment open and on disk until it releases it.
func reopenVersusDelete(s *verifh.Sink, base string) {
	at := time.Date(2024, 5, 10, 3, 0, 0, 0, time.UTC)
	var readerWon, deleteWon int64
	for c := 0; c < verifh.Pick(150, 3000); c++ {
		r := verifh.Rand("c14reopen", c)
		v, seg, err := newOneSegmentDB(base, at)
		if err != nil {
			continue
		}
		seg.closeIfIdle(math.MaxInt64)
		delay := time.Duration(r.Intn(3000)) * time.Microsecond
		readerDelay := time.Duration(0)
		if c%2 == 1 {
			readerDelay, delay = time.Duration(r.Intn(400))*time.Microsecond, time.Duration(r.Intn(200))*time.Microsecond
		}
		var wg sync.WaitGroup
		var acqErr error
		bad := ""
		wg.Add(2)
		go func() {
			defer wg.Done()
			time.Sleep(readerDelay)
			acqErr = seg.incRef(context.Background()) // slow path: reopens the index under the segment lock
			if acqErr == nil {
				for i := 0; i < 20; i++ {
					if o := observe(seg); !o.open || !o.dir {
						bad = fmt.Sprintf("reader acquired the segment but observes open=%v dir=%v", o.open, o.dir)
						break
					}
					time.Sleep(100 * time.Microsecond)
				}
			}
		}()
		go func() {
			defer wg.Done()
			time.Sleep(delay)
			v.sc.remove(time.Date(2100, 1, 1, 0, 0, 0, 0, time.UTC))
		}()
		wg.Wait()
		if acqErr == nil {
			readerWon++
			seg.DecRef()
		} else {
			deleteWon++
		}
		if bad == "" {
			if o := observe(seg); o.open || o.dir {
				bad = fmt.Sprintf("deleted segment with no holder left is still open=%v dir=%v", o.open, o.dir)
			}
		}
		s.Case(fmt.Sprintf("reopen-vs-delete/%d", c), true)
		if bad != "" {
			s.Violation("c14:reopen-races-delete", map[string]any{"round": c, "delete_delay": delay.String(), "discrepancy": bad})
		}
		dir := v.dir
		v.db.Close()
		os.RemoveAll(dir)
	}
	s.Count("c14.reopen_vs_delete.reader_acquired_first", readerWon)
	s.Count("c14.reopen_vs_delete.delete_first", deleteWon)
}

// expiredViews: the database-level selection (the one queries and the read-only statistics pass use) also hides a
// segment whose whole range has passed the retention deadline but which retention has not removed yet. Every
// sequence of {query holds a reference, statistics peek, release, clock passes the expiry, clock back, idle close}
// up to a fixed length runs on one segment. Oracle (conservation): a call changes the segment's reference count by
// exactly the number of references it hands out; at quiescence nothing keeps the segment from idle-closing and
// retention removes its directory once it is expired.
func expiredViews(s *verifh.Sink, base string) {
	names := []string{"query-select", "stats-peek", "release", "clock-past-expiry", "clock-back", "idle-close"}
	maxLen := verifh.Pick(4, 6)
	at := time.Date(2024, 5, 10, 3, 0, 0, 0, time.UTC)
	var seq []int
	var count int64
	var rec func()
	rec = func() {
		if len(seq) > 0 {
			count++
			v, seg, err := newOneSegmentDB(base, at)
			if err != nil {
				s.Violation("c14:setup", map[string]any{"err": err.Error()})
				return
			}
			ttl := IntervalRule{DAY, 7}.estimatedDuration()
			tr := timestamp.NewInclusiveTimeRange(seg.Start.Add(-time.Hour), seg.End.Add(time.Hour))
			held := 0
			expired, holdsWhileExpired := false, false
			bad := ""
			ref := func() int { return int(atomic.LoadInt32(&seg.refCount)) }
			sel := func(reopen bool) {
				before := ref()
				segs, err := v.db.SelectSegments(tr, reopen)
				if err != nil {
					bad = "selection failed: " + err.Error()
					return
				}
				got := 0
				for _, x := range segs {
					if x.GetTimeRange().Start.Equal(seg.Start) {
						got++
					}
				}
				if reopen {
					// a real read: one reference per returned segment
					if d := ref() - before; d != got {
						bad = fmt.Sprintf("SelectSegments(reopen=true) handed out %d reference(s) to the segment but its count moved by %d (expired=%v, held by others=%d)", got, d, expired, held)
					}
					held += got
				} else {
					// a read-only peek pins only what is in use; releasing everything it returned must leave the count as it was
					for _, x := range segs {
						x.DecRef()
					}
					if d := ref() - before; d != 0 {
						bad = fmt.Sprintf("a read-only peek (%d segment(s) returned, all released again) moved the segment's reference count by %d (expired=%v, held by others=%d)", len(segs), d, expired, held)
					}
				}
			}
			var hist []string
			for i, op := range seq {
				hist = append(hist, names[op])
				if p := safely(func() {
					switch op {
					case 0:
						sel(true)
					case 1:
						sel(false)
					case 2:
						if held > 0 {
							seg.DecRef()
							held--
						}
					case 3:
						v.clock.Set(seg.End.Add(ttl).Add(time.Millisecond))
						expired = true
					case 4:
						v.clock.Set(at)
						expired = false
					case 5:
						seg.closeIfIdle(math.MaxInt64)
					}
				}); p != "" {
					bad = "panic: " + p
				}
				if expired && held > 0 {
					holdsWhileExpired = true
				}
				if bad == "" && ref() != held {
					bad = fmt.Sprintf("reference count %d with %d holder(s)", ref(), held)
				}
				if bad != "" {
					bad = fmt.Sprintf("step %d (%s): %s", i, names[op], bad)
					break
				}
			}
			if bad == "" {
				for held > 0 {
					seg.DecRef()
					held--
				}
				if ref() != 0 {
					bad = fmt.Sprintf("all holders released, reference count %d", ref())
				} else {
					v.clock.Set(seg.End.Add(ttl).Add(time.Millisecond))
					if _, err := v.sc.remove(v.sc.getRetentionDeadline()); err != nil {
						bad = "retention failed: " + err.Error()
					} else if o := observe(seg); o.open || o.dir {
						bad = fmt.Sprintf("expired, unreferenced and selected for deletion, but open=%v dir=%v", o.open, o.dir)
					}
				}
			}
			s.Case(fmt.Sprint("expired-views/", hist), holdsWhileExpired)
			if count <= 1 {
				s.Sample(map[string]any{"sequence": hist, "oracle": "reference count moves by exactly the references handed out; nothing left at quiescence"})
			}
			if bad != "" {
				s.Violation(fmt.Sprintf("c14:expired-views:%v", hist), map[string]any{"sequence": hist, "discrepancy": bad})
			}
			dir := v.dir
			v.db.Close()
			os.RemoveAll(dir)
		}
		if len(seq) == maxLen {
			return
		}
		for op := 0; op < len(names); op++ {
			seq = append(seq, op)
			rec()
			seq = seq[:len(seq)-1]
		}
	}
	rec()
	s.Count("c14.expired_view_sequences", count)
}

func TestVerifC14(t *testing.T) {
	s := verifh.S()
	base := filepath.Join(verifh.Scratch(), "c14")
	sequential(s, base)
	expiredViews(s, base)
	concurrent(s, base)
	reopenVersusDelete(s, base)
	partial(s, base)
	os.RemoveAll(base)
	s.Done()
}
