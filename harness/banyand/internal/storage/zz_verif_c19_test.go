package storage

// C19 (segment level) — a file snapshot never reopens or disturbs closed segments and pins the open ones.
// Real segment controller with instrumented fake tables. Segments are put into the three states the
// property names (referenced, dormant-open, idle-closed); TakeFileSnapshot then runs while the idle
// reclaimer (closeIdleSegments) is fired repeatedly and the tables' own snapshot step takes a seeded
// time. Monitors: no table is closed while its snapshot runs; no table is (re)opened by the snapshot;
// closed segments stay closed; reference counts return to their values; the copy holds every segment with
// its metadata and every file of the closed ones, and opens as a TSDB with the same segments.

import (
	"context"
	"fmt"
	"os"
	"path/filepath"
	"sort"
	"strings"
	"sync"
	"sync/atomic"
	"testing"
	"time"

	"github.com/apache/skywalking-banyandb/api/common"
	"github.com/apache/skywalking-banyandb/pkg/fs"
	"github.com/apache/skywalking-banyandb/pkg/timestamp"
	"github.com/apache/skywalking-banyandb/pkg/verifh"
)

func listFiles(root string) []string {
	var out []string
	filepath.Walk(root, func(p string, info os.FileInfo, err error) error {
		if err == nil && !info.IsDir() {
			rel, _ := filepath.Rel(root, p)
			out = append(out, rel)
		}
		return nil
	})
	sort.Strings(out)
	return out
}

// closedCopyVersusReopen: the copy of an idle-closed segment while a reader/writer reopens that very segment and
// changes one of its tables (generation swap: gen1-* files replaced by gen2-* files, one state change of the
// table). Whoever comes first, the snapshot call succeeds and holds the table's state before or after the change.
var reopenNs atomic.Int64

// failingLinks is a file system whose hard links fail (a full disk, a link-count limit).
type failingLinks struct{ fs.FileSystem }

func (failingLinks) CreateHardLink(string, string, func(string) bool) error {
	return fmt.Errorf("verif: injected hard-link failure")
}

// failedSnapshotLeavesNothing: a snapshot call that fails on one segment after others were already written reports
// the error and leaves no directory behind that could be mistaken for (and restored as) a snapshot.
func failedSnapshotLeavesNothing(s *verifh.Sink, base string) {
	for c := 0; c < verifh.Pick(6, 60); c++ {
		r := verifh.Rand("c19seg-fail", c)
		dir := freshVDir(base)
		clock := timestamp.NewMockClock()
		t0 := time.Date(2024, 5, 10, 12, 0, 0, 0, time.UTC)
		clock.Set(t0)
		v, err := openVDB(dir, clock, dbOpts{interval: IntervalRule{DAY, 1}, ttl: IntervalRule{DAY, 365}, shards: 1, idle: time.Millisecond, disableRetention: true})
		if err != nil {
			s.Violation("c19seg:open", map[string]any{"err": err.Error()})
			continue
		}
		nSeg := 2 + r.Intn(2)
		var held []Segment[*vTable, any]
		for i := 0; i < nSeg; i++ {
			sg, err := v.db.CreateSegmentIfNotExist(time.Unix(0, t0.Add(-time.Duration(i)*24*time.Hour).UnixNano()))
			if err != nil {
				continue
			}
			if tab, err := sg.CreateTSTableIfNotExist(common.ShardID(0)); err == nil {
				os.WriteFile(filepath.Join(tab.root, "data-0.bin"), []byte("x"), 0o644)
			}
			if r.Intn(2) == 0 {
				held = append(held, sg) // stays open
			} else {
				sg.DecRef()
			}
		}
		time.Sleep(3 * time.Millisecond)
		v.sc.closeIdleSegments()
		segs := v.sc.copySegments()
		for f := range segs {
			orig := segs[f].lfs
			segs[f].lfs = failingLinks{orig}
			dst := fmt.Sprintf("%s.snapshot%d", dir, f)
			os.RemoveAll(dst)
			created, serr := v.db.TakeFileSnapshot(dst)
			segs[f].lfs = orig
			_, statErr := os.Stat(dst)
			s.Case(fmt.Sprint("failed-snapshot/", c, "/", f, "/", nSeg), f > 0)
			s.Count("c19seg.snapshot_calls_with_an_injected_link_failure", 1)
			switch {
			case serr == nil:
				s.Violation("c19seg:failed-snapshot:error-not-reported", map[string]any{"case": c, "failing_segment": f, "segments": nSeg, "created": created})
			case statErr == nil:
				s.Violation("c19seg:failed-snapshot:partial-directory-left-behind", map[string]any{"case": c, "failing_segment": f, "segments": nSeg, "left": listFiles(dst)})
			}
			os.RemoveAll(dst)
		}
		for _, h := range held {
			h.DecRef()
		}
		v.db.Close()
		os.RemoveAll(dir)
	}
}

func closedCopyVersusReopen(s *verifh.Sink, base string) {
	const nFiles = 3000
	for c := 0; c < verifh.Pick(30, 600); c++ {
		r := verifh.Rand("c19seg-reopen", c)
		dir := freshVDir(base)
		clock := timestamp.NewMockClock()
		t0 := time.Date(2024, 5, 10, 12, 0, 0, 0, time.UTC)
		clock.Set(t0)
		v, err := openVDB(dir, clock, dbOpts{interval: IntervalRule{DAY, 1}, ttl: IntervalRule{DAY, 365}, shards: 1, idle: time.Millisecond, disableRetention: true})
		if err != nil {
			s.Violation("c19seg:open", map[string]any{"err": err.Error()})
			continue
		}
		var target *segment[*vTable, any]
		for i := 1; i < 2; i++ { // one segment only: the snapshot call is the copy of this closed segment
			sg, err := v.db.CreateSegmentIfNotExist(time.Unix(0, t0.Add(-time.Duration(i)*24*time.Hour).UnixNano()))
			if err != nil {
				s.Violation("c19seg:create", map[string]any{"err": err.Error()})
				continue
			}
			if tab, err := sg.CreateTSTableIfNotExist(common.ShardID(0)); err == nil && i == 1 {
				for k := 0; k < nFiles; k++ {
					os.WriteFile(filepath.Join(tab.root, fmt.Sprintf("gen1-%04d.bin", k)), []byte("x"), 0o644)
				}
				target = sg.(*segment[*vTable, any])
			}
			sg.DecRef()
		}
		time.Sleep(3 * time.Millisecond)
		v.sc.closeIdleSegments()
		target.mu.Lock()
		closed := target.index == nil
		target.mu.Unlock()
		if !closed {
			s.Inconclusive("the target segment did not idle-close")
			v.db.Close()
			os.RemoveAll(dir)
			continue
		}
		dst := dir + ".snapshot"
		os.RemoveAll(dst)
		delay := time.Duration(r.Intn(120000)) * time.Microsecond
		var wg sync.WaitGroup
		wg.Add(1)
		var werr error
		go func() {
			defer wg.Done()
			time.Sleep(delay)
			w0 := time.Now()
			if werr = target.incRef(context.Background()); werr != nil {
				return
			}
			reopenNs.Store(int64(time.Since(w0)))
			tabs, _ := target.Tables()
			for _, tab := range tabs {
				tab.swapGeneration(1, 2, nFiles)
			}
			target.DecRef()
		}()
		// the reopen alone takes milliseconds (the series index is opened): the copy starts anywhere around the change
		time.Sleep(time.Duration(r.Intn(15000)) * time.Microsecond)
		c0 := time.Now()
		created, serr := v.db.TakeFileSnapshot(dst)
		snapDur := time.Since(c0)
		wg.Wait()
		if c < 5 {
			s.Note(fmt.Sprintf("closed-copy case %d: snapshot call took %v, the writer's reopen took %v", c, snapDur, time.Duration(reopenNs.Load())))
		}
		detail := map[string]any{"case": c, "writer_delay": delay.String()}
		gens := map[string]int{}
		for _, f := range listFiles(filepath.Join(dst, filepath.Base(target.location))) {
			if bn := filepath.Base(f); strings.HasPrefix(bn, "gen") {
				gens[bn[:4]]++
			}
		}
		detail["generation_files_in_the_copy"] = fmt.Sprint(gens)
		switch {
		case werr != nil:
			s.Violation("c19seg:closed-copy:reopen-fails", map[string]any{"case": c, "err": werr.Error()})
		case serr != nil:
			detail["err"] = serr.Error()
			s.Violation("c19seg:closed-copy:snapshot-call-fails", detail)
		case !created:
			s.Violation("c19seg:closed-copy:snapshot-reports-nothing", detail)
		case !(gens["gen1"] == nFiles && gens["gen2"] == 0) && !(gens["gen2"] == nFiles && gens["gen1"] == 0):
			s.Violation("c19seg:closed-copy:mixture-of-two-table-states", detail)
		}
		s.Count("c19seg.closed_copies_racing_a_reopen", 1)
		if gens["gen2"] == nFiles {
			s.Count("c19seg.closed_copies_that_hold_the_state_after_the_change", 1)
		}
		s.Case(fmt.Sprint("closed-copy/", c, delay), true)
		v.db.Close()
		os.RemoveAll(dst)
		os.RemoveAll(dir)
	}
}

func TestVerifC19Segments(t *testing.T) {
	s := verifh.S()
	base := filepath.Join(verifh.Scratch(), "c19seg")
	closedCopyVersusReopen(s, base)
	failedSnapshotLeavesNothing(s, base)
	for c := 0; c < verifh.Pick(40, 1200); c++ {
		r := verifh.Rand("c19seg", c)
		dir := freshVDir(base)
		clock := timestamp.NewMockClock()
		t0 := time.Date(2024, 5, 10, 12, 0, 0, 0, time.UTC)
		clock.Set(t0)
		v, err := openVDB(dir, clock, dbOpts{interval: IntervalRule{DAY, 1}, ttl: IntervalRule{DAY, 365}, shards: 2, idle: time.Millisecond, disableRetention: true})
		if err != nil {
			s.Violation("c19seg:open", map[string]any{"err": err.Error()})
			continue
		}
		nSeg := 2 + r.Intn(4)
		type st struct {
			seg    *segment[*vTable, any]
			state  string // referenced | dormant | closed
			files  []string
			refBef int32
		}
		var segs []*st
		var held []Segment[*vTable, any]
		for i := 0; i < nSeg; i++ {
			ts := t0.Add(-time.Duration(i) * 24 * time.Hour)
			sg, err := v.db.CreateSegmentIfNotExist(time.Unix(0, ts.UnixNano()))
			if err != nil {
				s.Violation("c19seg:create", map[string]any{"err": err.Error()})
				continue
			}
			for sh := 0; sh < 2; sh++ {
				tab, err := sg.CreateTSTableIfNotExist(common.ShardID(sh))
				if err == nil {
					for k := 0; k <= r.Intn(3); k++ {
						os.WriteFile(filepath.Join(tab.root, fmt.Sprintf("data-%d.bin", k)), []byte(fmt.Sprint(c, i, sh, k)), 0o644)
					}
				}
			}
			e := &st{seg: sg.(*segment[*vTable, any]), state: []string{"referenced", "dormant", "dormant", "closed", "closed"}[r.Intn(5)]}
			if e.state == "referenced" {
				held = append(held, sg)
			} else {
				sg.DecRef()
			}
			segs = append(segs, e)
		}
		// let the ones meant to be closed go idle and reclaim them; keep the dormant ones fresh
		time.Sleep(3 * time.Millisecond)
		for _, e := range segs {
			if e.state == "dormant" {
				e.seg.lastAccessed.Store(time.Now().Add(time.Hour).UnixNano()) // not idle yet when the snapshot starts
			}
		}
		v.sc.closeIdleSegments()
		for _, e := range segs {
			e.seg.mu.Lock()
			closed := e.seg.index == nil
			e.seg.mu.Unlock()
			if (e.state == "closed") != closed {
				e.state = map[bool]string{true: "closed", false: e.state}[closed]
			}
			e.refBef = atomic.LoadInt32(&e.seg.refCount)
			e.files = listFiles(e.seg.location)
		}
		snapshotDelayNs.Store(int64(time.Duration(200+r.Intn(2500)) * time.Microsecond))
		openedBefore, closedDuring0 := tablesOpened.Load(), tableClosedDuringSnapshot.Load()
		dst := dir + ".snapshot"
		os.RemoveAll(dst)
		var stop atomic.Bool
		var wg sync.WaitGroup
		wg.Add(1)
		reclaimed := 0
		go func() {
			defer wg.Done()
			// the dormant segments cross their idle threshold one after the other while the snapshot is under way
			rr := verifh.Rand("c19seg-idle", c)
			for !stop.Load() {
				if rr.Intn(4) == 0 {
					if e := segs[rr.Intn(len(segs))]; e.state == "dormant" {
						e.seg.lastAccessed.Store(time.Now().Add(-time.Hour).UnixNano())
					}
				}
				reclaimed += v.sc.closeIdleSegments()
				time.Sleep(100 * time.Microsecond)
			}
		}()
		time.Sleep(200 * time.Microsecond)
		created, serr := v.db.TakeFileSnapshot(dst)
		stop.Store(true)
		wg.Wait()
		snapshotDelayNs.Store(0)
		d := func(m map[string]any) map[string]any {
			var states []string
			for _, e := range segs {
				states = append(states, e.state)
			}
			m["case"], m["segment_states"], m["segments_reclaimed_during_the_call"] = c, states, reclaimed
			return m
		}
		switch {
		case serr != nil:
			s.Violation("c19seg:snapshot-call-fails", d(map[string]any{"err": serr.Error()}))
		case !created:
			s.Violation("c19seg:snapshot-reports-nothing", d(map[string]any{}))
		}
		if n := tableClosedDuringSnapshot.Load() - closedDuring0; n > 0 {
			s.Violation("c19seg:table-closed-while-its-snapshot-runs", d(map[string]any{"tables": n}))
		}
		if n := tablesOpened.Load() - openedBefore; n > 0 {
			s.Violation("c19seg:snapshot-opened-tables", d(map[string]any{"tables": n}))
		}
		for i, e := range segs {
			e.seg.mu.Lock()
			closed := e.seg.index == nil
			e.seg.mu.Unlock()
			if e.state == "closed" && !closed {
				s.Violation("c19seg:closed-segment-reopened-by-snapshot", d(map[string]any{"segment": i}))
			}
			if ref := atomic.LoadInt32(&e.seg.refCount); ref != e.refBef {
				s.Violation("c19seg:reference-count-changed", d(map[string]any{"segment": i, "before": e.refBef, "after": ref}))
			}
			if serr == nil && created {
				got := listFiles(filepath.Join(dst, filepath.Base(e.seg.location)))
				have := map[string]bool{}
				for _, f := range got {
					have[f] = true
				}
				for _, f := range e.files {
					bn := filepath.Base(f)
					if bn == "lock" || filepath.Ext(bn) == ".tmp" || !(bn == metadataFilename || filepath.Ext(bn) == ".bin") {
						continue // series-index internals are the index's business; data files and metadata are ours
					}
					if !have[f] {
						s.Violation("c19seg:file-missing-in-snapshot", d(map[string]any{"segment": i, "state": e.state, "file": f}))
						break
					}
				}
			}
		}
		for _, h := range held {
			h.DecRef()
		}
		want := v.spans()
		v.db.Close()
		if serr == nil && created {
			v2, err := openVDB(dst, clock, dbOpts{interval: IntervalRule{DAY, 1}, ttl: IntervalRule{DAY, 365}, shards: 2, disableRetention: true})
			if err != nil {
				s.Violation("c19seg:snapshot-does-not-open", d(map[string]any{"err": err.Error()}))
			} else {
				if got := v2.spans(); fmt.Sprint(got) != fmt.Sprint(want) {
					s.Violation("c19seg:snapshot-has-different-segments", d(map[string]any{"source": fmt.Sprint(want), "snapshot": fmt.Sprint(got)}))
				}
				v2.db.Close()
			}
		}
		var states []string
		kinds := map[string]bool{}
		for _, e := range segs {
			states = append(states, e.state)
			kinds[e.state] = true
		}
		s.Count("c19seg.snapshots", 1)
		s.Count("c19seg.segments_reclaimed_during_snapshot_calls", int64(reclaimed))
		s.Case(fmt.Sprint(states, snapshotDelayNs.Load()), len(kinds) >= 2)
		if c < 2 {
			s.Sample(map[string]any{"segment_states": states, "reclaimed_during_call": reclaimed})
		}
		os.RemoveAll(dst)
		os.RemoveAll(dir)
	}
	os.RemoveAll(base)
	s.Done()
}
