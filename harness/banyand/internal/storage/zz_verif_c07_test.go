package storage

// C07 — retention removes only fully expired segments and hides them at once.
// Mock clock; the real retention task (cron entry point and the data-tick path), the real SelectSegments
// and the forced-cleanup entry points. "now" is the injected clock only.

import (
	"context"
	"fmt"
	"os"
	"path/filepath"
	"testing"
	"time"

	"github.com/apache/skywalking-banyandb/pkg/timestamp"
	"github.com/apache/skywalking-banyandb/pkg/verifh"
)

type c07 struct {
	s      *verifh.Sink
	v      *vdb
	ttl    time.Duration
	hist   []string
	label  string
	points []time.Time // timestamps of the data written so far (minus what forced cleanup took away)
}

// write files one data point at ts (creating its segment on demand) and remembers it.
func (c *c07) write(ts time.Time) {
	seg, err := c.v.db.CreateSegmentIfNotExist(time.Unix(0, ts.UnixNano()))
	if err != nil {
		return
	}
	seg.DecRef()
	c.points = append(c.points, ts)
}

func (c *c07) deadline() time.Time { return c.v.clock.Now().Add(-c.ttl) }

func (c *c07) violate(kind string, d map[string]any) {
	d["config"] = c.label
	d["clock"] = c.v.clock.Now().UTC().Format(time.RFC3339Nano)
	d["deadline"] = c.deadline().UTC().Format(time.RFC3339Nano)
	h := c.hist
	if len(h) > 10 {
		h = h[len(h)-10:]
	}
	d["last_ops"] = h
	c.s.Violation("c07:"+kind, d)
}

// waitRotationIdle waits (logical condition, bounded) until the rotation goroutine has finished a tick.
func (c *c07) waitRotationIdle() {
	for i, quiet := 0, 0; i < 4000 && quiet < 30; i++ {
		busy := c.v.db.rotationProcessOn.Load()
		select {
		case c.v.db.retentionGate <- struct{}{}:
			<-c.v.db.retentionGate
		default:
			busy = true
		}
		if busy {
			quiet = 0
		} else {
			quiet++
		}
		time.Sleep(200 * time.Microsecond)
	}
}

// afterRetention: judge what a retention run (by whichever path) did.
func (c *c07) afterRetention(before []span, path string) {
	after := c.v.spans()
	d := c.deadline()
	left := map[string]bool{}
	for _, a := range after {
		left[a.start.Format(time.RFC3339Nano)] = true
	}
	for _, b := range before {
		if !left[b.start.Format(time.RFC3339Nano)] && b.end.After(d) {
			c.violate("segment-younger-than-ttl-removed:"+path, map[string]any{"segment": b.String(), "segment_end_minus_deadline": b.end.Sub(d).String()})
		}
		if !left[b.start.Format(time.RFC3339Nano)] {
			c.s.Count("c07.removals."+path, 1)
		}
	}
	if path == "cron" {
		for _, a := range after {
			if !a.end.After(d) {
				c.violate("expired-segment-survives-retention-run", map[string]any{"segment": a.String()})
			}
		}
	}
}

// checkVisibility: a query over everything returns exactly the segments whose range has not fully expired.
func (c *c07) checkVisibility() {
	d := c.deadline()
	all := c.v.spans()
	tr := timestamp.NewInclusiveTimeRange(time.Unix(0, 1), time.Date(2100, 1, 1, 0, 0, 0, 0, time.UTC))
	segs, err := c.v.db.SelectSegments(tr, true)
	if err != nil {
		c.violate("select-failed", map[string]any{"err": err.Error()})
		return
	}
	got := map[string]bool{}
	for _, sg := range segs {
		got[sg.GetTimeRange().Start.Format(time.RFC3339Nano)] = true
	}
	defer func() {
		for _, sg := range segs {
			sg.DecRef()
		}
	}()
	c.s.Count("c07.visibility_checks", 1)
	for _, p := range c.points {
		if !p.After(d) {
			continue // at or beyond the TTL: may or may not be visible
		}
		found := false
		for _, sg := range segs {
			tr := sg.GetTimeRange()
			if !p.Before(tr.Start) && p.Before(tr.End) {
				found = true
			}
		}
		if !found {
			c.violate("data-younger-than-ttl-not-visible", map[string]any{"data_timestamp": p.UTC().Format(time.RFC3339Nano), "age_below_ttl_by": p.Sub(d).String(), "segments": fmt.Sprint(all)})
			break
		}
	}
	for _, a := range all {
		expired := !a.end.After(d)
		vis := got[a.start.Format(time.RFC3339Nano)]
		switch {
		case expired && vis:
			c.violate("expired-segment-still-visible", map[string]any{"segment": a.String()})
		case !expired && !vis:
			c.violate("unexpired-segment-hidden", map[string]any{"segment": a.String(), "segment_end_minus_deadline": a.end.Sub(d).String()})
		}
		if expired {
			c.s.Count("c07.hidden_before_physical_delete", 1)
		}
	}
}

func TestVerifC07(t *testing.T) {
	s := verifh.S()
	base := filepath.Join(verifh.Scratch(), "c07")
	type cfg struct{ interval, ttl IntervalRule }
	var cfgs []cfg
	for _, iv := range []IntervalRule{{HOUR, 1}, {HOUR, 2}, {DAY, 1}, {DAY, 2}} {
		for _, ttl := range []IntervalRule{{HOUR, 2}, {DAY, 1}, {DAY, 3}, {DAY, 7}} {
			cfgs = append(cfgs, cfg{iv, ttl})
		}
	}
	reps := verifh.Pick(3, 40)
	zone := os.Getenv("TZ")
	dstZone := zone != "" && zone != "UTC"
	for ci, cf := range cfgs {
		for rep := 0; rep < reps; rep++ {
			r := verifh.Rand(fmt.Sprintf("c07/%d", ci), rep)
			t0 := time.Date(2024, 5, 10, 0, 0, 0, 0, time.UTC)
			if dstZone {
				// the runner repeats this binary in a zone with daylight saving (TZ): start the day before the spring-forward
				// day of 2024 so that the TTL window of the later clock positions contains a 23-hour day. Only DAY grids here:
				// the HOUR grid outside UTC is C06's recorded finding.
				if cf.interval.Unit == HOUR {
					continue
				}
				t0 = time.Date(2024, 3, 9, 12, 0, 0, 0, time.UTC)
			}
			dir := freshVDir(base)
			clock := timestamp.NewMockClock()
			clock.Set(t0)
			v, err := openVDB(dir, clock, dbOpts{interval: cf.interval, ttl: cf.ttl})
			if err != nil {
				s.Violation("c07:open-failed", map[string]any{"err": err.Error()})
				continue
			}
			c := &c07{s: s, v: v, ttl: cf.ttl.estimatedDuration(), label: ruleString(cf.interval) + "/ttl=" + ruleString(cf.ttl) + zoneSuffix(zone)}
			step := cf.interval.estimatedDuration()
			// 1..5 segments, consecutive or with gaps, the newest containing t0
			n := 1 + r.Intn(5)
			at := t0
			for i := 0; i < n; i++ {
				c.write(at)
				if r.Intn(2) == 0 {
					c.write(at.Add(step - time.Millisecond).Truncate(time.Millisecond)) // a point late in the same span
				}
				at = at.Add(-step * time.Duration(1+r.Intn(2)))
			}
			rt := newRetentionTask(v.db, cf.ttl)
			boundary := false
			ops := 10 + r.Intn(14)
			for op := 0; op < ops; op++ {
				sp := v.spans()
				if len(sp) == 0 {
					break
				}
				switch k := r.Intn(15); {
				case k >= 13: // a data tick slightly ahead of a clock that stands just before an expiry instant (writer clock skew)
					b := sp[r.Intn(len(sp))]
					before0 := []time.Duration{time.Millisecond, time.Second, time.Minute, 9 * time.Minute}[r.Intn(4)]
					target := b.end.Add(c.ttl).Add(-before0)
					clock.Set(target)
					ahead := before0 + []time.Duration{0, time.Millisecond, time.Second, 30 * time.Second}[r.Intn(4)]
					if r.Intn(4) == 0 {
						ahead = []time.Duration{time.Nanosecond, 10 * time.Minute, 10*time.Minute + time.Nanosecond, 11 * time.Minute}[r.Intn(4)]
					}
					c.hist = append(c.hist, fmt.Sprintf("clock=%s tick(clock%+v)", target.UTC().Format(time.RFC3339Nano), ahead))
					boundary = true
					c.checkVisibility()
					before := v.spans()
					v.db.latestTickTime.Store(0)
					v.db.Tick(target.Add(ahead).UnixNano())
					c.waitRotationIdle()
					c.afterRetention(before, "tick-slightly-ahead")
					c.checkVisibility()
					s.Count("c07.ticks_slightly_ahead_of_the_clock", 1)
				case k == 12: // restart, possibly with a re-timed segment interval (spans of existing segments must survive)
					nr := IntervalRule{cf.interval.Unit, []int{1, 2, 3}[r.Intn(3)]}
					c.hist = append(c.hist, "restart(interval="+ruleString(nr)+")")
					v.db.Close()
					v2, err := openVDB(dir, clock, dbOpts{interval: nr, ttl: cf.ttl})
					if err != nil {
						c.violate("reopen-failed", map[string]any{"err": err.Error()})
						op = ops
						break
					}
					v, c.v = v2, v2
					rt = newRetentionTask(v.db, cf.ttl)
					s.Count("c07.restarts", 1)
					c.checkVisibility()
				case k < 4: // move the clock onto / next to an expiry boundary of some segment: end+TTL -1ms, +0, +1ms
					b := sp[r.Intn(len(sp))]
					target := b.end.Add(c.ttl).Add([]time.Duration{-time.Millisecond, 0, time.Millisecond, -time.Hour, time.Hour}[r.Intn(5)])
					clock.Set(target) // the mock clock may also move backwards: retention must follow the clock it is given
					c.hist = append(c.hist, "clock="+target.UTC().Format(time.RFC3339Nano))
					boundary = true
					c.checkVisibility()
				case k < 6: // the cron entry point with the clock's now
					c.hist = append(c.hist, "retention-run(cron)")
					before := v.spans()
					rt.run(context.Background(), clock.Now(), v.db.logger)
					c.afterRetention(before, "cron")
					c.checkVisibility()
				case k < 9: // a data tick: older than, equal to, or newer than the clock (future-dated data)
					off := []time.Duration{-48 * time.Hour, -time.Hour, 0, time.Millisecond, 5 * time.Minute, 10 * time.Minute, time.Hour, c.ttl, 2 * c.ttl, 30 * 24 * time.Hour}[r.Intn(10)]
					ts := clock.Now().Add(off)
					c.hist = append(c.hist, fmt.Sprintf("tick(clock%+v)", off))
					before := v.spans()
					v.db.latestTickTime.Store(0) // ticks closer than 10 minutes to the previous one are ignored by design
					v.db.Tick(ts.UnixNano())
					c.waitRotationIdle()
					path := "tick"
					if off > 0 {
						path = "tick-future-dated"
					}
					c.afterRetention(before, path)
					c.checkVisibility()
				case k < 11: // forced disk-pressure cleanup
					c.hist = append(c.hist, "delete-oldest")
					before := v.spans()
					deleted, err := v.db.DeleteOldestSegment()
					after := v.spans()
					s.Count("c07.forced_cleanups", 1)
					switch {
					case err != nil:
						c.violate("forced-cleanup-error", map[string]any{"err": err.Error()})
					case len(before)-len(after) > 1:
						c.violate("forced-cleanup-removed-more-than-one", map[string]any{"before": fmt.Sprint(before), "after": fmt.Sprint(after)})
					case len(before) == 1 && len(after) == 0:
						c.violate("forced-cleanup-removed-last-segment", map[string]any{"before": fmt.Sprint(before)})
					case deleted && (len(after) != len(before)-1 || (len(after) > 0 && !after[0].start.After(before[0].start))):
						c.violate("forced-cleanup-did-not-remove-the-oldest", map[string]any{"before": fmt.Sprint(before), "after": fmt.Sprint(after)})
					case !deleted && len(after) != len(before):
						c.violate("forced-cleanup-removed-silently", map[string]any{"before": fmt.Sprint(before), "after": fmt.Sprint(after)})
					}
					if deleted {
						kept := c.points[:0]
						for _, p := range c.points {
							if !(len(before) > 0 && !p.Before(before[0].start) && p.Before(before[0].end)) {
								kept = append(kept, p)
							}
						}
						c.points = kept
						s.Count("c07.forced_cleanup_removed", 1)
					} else {
						s.Count("c07.forced_cleanup_refused", 1)
					}
				default: // new data arrives at the clock's now
					c.hist = append(c.hist, "write-at-clock")
					c.write(clock.Now())
				}
			}
			s.Case(fmt.Sprintf("%s/%d/%v", c.label, rep, c.hist), boundary)
			if ci == 0 && rep == 0 {
				s.Sample(map[string]any{"config": c.label, "ops": c.hist})
			}
			v.db.Close()
			os.RemoveAll(dir)
		}
	}
	os.RemoveAll(base)
	s.Done()
}

func zoneSuffix(zone string) string {
	if zone == "" || zone == "UTC" {
		return ""
	}
	return "/" + zone
}
