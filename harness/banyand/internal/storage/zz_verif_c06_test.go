package storage

// C06 — time segments partition the timeline: disjoint, each accepted timestamp in exactly one segment that
// contains it, new segments on the configured grid, boundaries stable across restarts and option updates.
// The grid is defined on time.Local, so the runner executes this binary once per time zone (TZ).

import (
	"fmt"
	"math/rand"
	"os"
	"path/filepath"
	"strings"
	"testing"
	"time"

	"github.com/apache/skywalking-banyandb/pkg/timestamp"
	"github.com/apache/skywalking-banyandb/pkg/verifh"
)

// transitions finds the instants at which the local UTC offset changes within [from, to).
func transitions(from, to time.Time) []time.Time {
	var out []time.Time
	_, prev := from.Zone()
	for t := from; t.Before(to); t = t.Add(30 * time.Minute) {
		_, off := t.In(time.Local).Zone()
		if off != prev {
			out = append(out, t)
			prev = off
		}
	}
	return out
}

// wallHours is the number of wall-clock hours since 1970-01-01 00:00 local, from calendar fields only.
func wallHours(t time.Time) int64 {
	t = t.In(time.Local)
	days := int64(time.Date(t.Year(), t.Month(), t.Day(), 0, 0, 0, 0, time.UTC).Unix() / 86400)
	return days*24 + int64(t.Hour())
}

// onGrid: the start of a freshly created, un-bumped segment lies on the configured grid.
func onGrid(start time.Time, r IntervalRule) bool {
	l := start.In(time.Local)
	if l.Minute() != 0 || l.Second() != 0 || l.Nanosecond() != 0 {
		return false
	}
	if r.Unit == DAY {
		return l.Hour() == 0 && (wallHours(l)/24)%int64(r.Num) == 0
	}
	return wallHours(l)%int64(r.Num) == 0
}

type c06 struct {
	s    *verifh.Sink
	zone string
	rule IntervalRule
	hist []string
}

func (c *c06) key(kind string) string {
	u := "HOUR"
	if c.rule.Unit == DAY {
		u = "DAY"
	}
	return fmt.Sprintf("c06:tz=%s:unit=%s:%s", c.zone, u, kind)
}

func (c *c06) violate(kind string, detail map[string]any) {
	detail["zone"], detail["rule"] = c.zone, ruleString(c.rule)
	h := c.hist
	if len(h) > 12 {
		h = h[len(h)-12:]
	}
	detail["last_ops"] = h
	c.s.Violation(c.key(kind), detail)
}

// invariants over the whole segment set.
func (c *c06) checkSet(v *vdb, when string) []span {
	sp := v.spans()
	for i := range sp {
		if !sp[i].end.After(sp[i].start) {
			c.violate("empty-or-inverted-segment", map[string]any{"segment": sp[i].String(), "when": when})
		}
		if i > 0 && sp[i].start.Before(sp[i-1].end) {
			c.violate("segments-overlap", map[string]any{"a": sp[i-1].String(), "b": sp[i].String(), "when": when})
		}
	}
	return sp
}

func sameSpans(a, b []span) bool {
	if len(a) != len(b) {
		return false
	}
	for i := range a {
		if !a[i].start.Equal(b[i].start) || !a[i].end.Equal(b[i].end) {
			return false
		}
	}
	return true
}

func TestVerifC06(t *testing.T) {
	s := verifh.S()
	zone := os.Getenv("TZ")
	if zone == "" {
		zone = "UTC"
	}
	base := filepath.Join(verifh.Scratch(), "c06")
	trs := transitions(time.Date(2024, 1, 1, 0, 0, 0, 0, time.UTC), time.Date(2025, 1, 1, 0, 0, 0, 0, time.UTC))
	trs = append(trs, transitions(time.Date(2011, 12, 25, 0, 0, 0, 0, time.UTC), time.Date(2012, 1, 5, 0, 0, 0, 0, time.UTC))...)
	s.Count("c06.offset_transitions_in_zone", int64(len(trs)))
	rules := []IntervalRule{{HOUR, 1}, {HOUR, 2}, {HOUR, 3}, {HOUR, 6}, {HOUR, 12}, {DAY, 1}, {DAY, 2}, {DAY, 3}, {DAY, 7}}
	nHist := verifh.Pick(45, 900)
	for h := 0; h < nHist; h++ {
		r := verifh.Rand("c06/"+zone, h)
		rule := rules[h%len(rules)]
		c := &c06{s: s, zone: zone, rule: rule}
		dir := freshVDir(base)
		clock := timestamp.NewMockClock()
		clock.Set(time.Date(2024, 6, 1, 0, 0, 0, 0, time.UTC))
		opts := dbOpts{interval: rule, ttl: IntervalRule{DAY, 3650}, disableRetention: true}
		v, err := openVDB(dir, clock, opts)
		if err != nil {
			s.Violation(c.key("open-failed"), map[string]any{"err": err.Error()})
			continue
		}
		// candidate instants: around an offset transition (if the zone has any), plus seeded ones
		var center time.Time
		if len(trs) > 0 && r.Intn(3) != 0 {
			center = trs[r.Intn(len(trs))]
		} else {
			center = time.Date(2023+r.Intn(3), time.Month(1+r.Intn(12)), 1+r.Intn(28), r.Intn(24), 0, 0, 0, time.UTC)
		}
		reach := 30 * time.Hour
		if rule.Unit == DAY {
			reach = time.Duration(rule.Num*4*24) * time.Hour
		}
		nontrivial := false
		ops := 12 + r.Intn(20)
		for op := 0; op < ops; op++ {
			kind := r.Intn(20)
			switch {
			case kind < 15: // an accepted timestamp: find or create its segment
				var ts time.Time
				sp := v.spans()
				if len(sp) > 0 && r.Intn(3) == 0 { // exact boundaries of existing segments, +-1ms
					b := sp[r.Intn(len(sp))]
					ts = []time.Time{b.start, b.start.Add(-time.Millisecond), b.end, b.end.Add(-time.Millisecond), b.end.Add(time.Millisecond)}[r.Intn(5)]
				} else {
					ts = center.Add(time.Duration(r.Int63n(int64(2*reach))) - reach).Truncate(time.Millisecond)
					if r.Intn(2) == 0 {
						ts = ts.Truncate(15 * time.Minute)
					}
				}
				ts = time.Unix(0, ts.UnixNano()) // exactly what the write path passes: an instant in time.Local
				c.hist = append(c.hist, "create("+ts.In(time.Local).Format(time.RFC3339Nano)+")")
				before := v.spans()
				var got span
				var cerr error
				p := safely(func() {
					seg, err := v.db.CreateSegmentIfNotExist(ts)
					if err != nil {
						cerr = err
						return
					}
					tr := seg.GetTimeRange()
					got = span{start: tr.Start, end: tr.End}
					seg.DecRef()
				})
				s.Count("c06.create_calls", 1)
				if p != "" {
					cls := "panic"
					if strings.Contains(p, "exist") {
						cls = "panic-segment-directory-exists"
					}
					c.violate(cls, map[string]any{"ts": ts.In(time.Local).Format(time.RFC3339Nano), "panic": clip(p, 300)})
					// the database may be left inconsistent: continue with a fresh one
					op = ops
					break
				}
				if cerr != nil {
					c.violate("accepted-timestamp-refused", map[string]any{"ts": ts.Format(time.RFC3339Nano), "err": cerr.Error()})
					break
				}
				if ts.Before(got.start) || !ts.Before(got.end) {
					c.violate("segment-does-not-contain-timestamp", map[string]any{"ts": ts.In(time.Local).Format(time.RFC3339Nano), "segment": got.String(), "local_segment": got.start.In(time.Local).Format(time.RFC3339) + ".." + got.end.In(time.Local).Format(time.RFC3339)})
				}
				after := c.checkSet(v, "after create")
				if len(after) > len(before) {
					s.Count("c06.segments_created", 1)
					// a new segment that has no neighbour inside its grid bucket must start on the grid
					bumped := false
					for _, b := range before {
						if b.end.Equal(got.start) || b.start.Equal(got.end) {
							bumped = true
						}
					}
					if !bumped && !onGrid(got.start, c.rule) {
						c.violate("new-segment-off-grid", map[string]any{"ts": ts.In(time.Local).Format(time.RFC3339Nano), "segment_local_start": got.start.In(time.Local).Format(time.RFC3339Nano)})
					}
					if bumped {
						s.Count("c06.segments_created_next_to_a_neighbour", 1)
					}
				}
				// exactly one segment contains ts
				n := 0
				for _, b := range after {
					if !ts.Before(b.start) && ts.Before(b.end) {
						n++
					}
				}
				if n != 1 && p == "" && cerr == nil {
					c.violate("timestamp-in-zero-or-many-segments", map[string]any{"ts": ts.In(time.Local).Format(time.RFC3339Nano), "containing": n})
				}
				if len(after) >= 2 {
					nontrivial = true
				}
			case kind < 17: // restart
				before := v.spans()
				c.hist = append(c.hist, "reopen")
				v.db.Close()
				v2, err := openVDB(dir, clock, opts)
				if err != nil {
					c.violate("reopen-failed", map[string]any{"err": err.Error()})
					op = ops
					v = nil
					break
				}
				v = v2
				after := c.checkSet(v, "after reopen")
				if !sameSpans(before, after) {
					c.violate("boundaries-changed-across-restart", map[string]any{"before": fmt.Sprint(before), "after": fmt.Sprint(after)})
				}
				s.Count("c06.reopens", 1)
				nontrivial = nontrivial || len(before) > 0
			case kind < 19: // configuration update: a different Num of the same unit
				before := v.spans()
				nr := IntervalRule{rule.Unit, []int{1, 2, 3, 6, 7, 12}[r.Intn(6)]}
				c.hist = append(c.hist, "update-interval("+ruleString(nr)+")")
				v.db.UpdateOptions(resourceOpts(nr, IntervalRule{DAY, 3650}, 1))
				opts.interval, c.rule = nr, nr
				after := c.checkSet(v, "after update")
				if !sameSpans(before, after) {
					c.violate("boundaries-changed-by-options-update", map[string]any{"before": fmt.Sprint(before), "after": fmt.Sprint(after)})
				}
				s.Count("c06.option_updates", 1)
				nontrivial = nontrivial || len(before) > 0
			default: // range selection equals the overlap with the model
				sp := v.spans()
				if len(sp) == 0 {
					break
				}
				lo := sp[r.Intn(len(sp))].start.Add(time.Duration(r.Intn(3)-1) * time.Millisecond)
				hi := sp[r.Intn(len(sp))].end.Add(time.Duration(r.Intn(3)-1) * time.Millisecond)
				if hi.Before(lo) {
					lo, hi = hi, lo
				}
				tr := timestamp.NewInclusiveTimeRange(lo, hi)
				segs, err := v.db.SelectSegments(tr, true)
				if err != nil {
					c.violate("select-failed", map[string]any{"err": err.Error()})
					break
				}
				gotN := map[string]bool{}
				for _, sg := range segs {
					gotN[sg.GetTimeRange().Start.Format(time.RFC3339Nano)] = true
					sg.DecRef()
				}
				for _, b := range sp {
					want := !b.start.After(hi) && b.end.After(lo) // [start,end) overlaps [lo,hi]
					if want != gotN[b.start.Format(time.RFC3339Nano)] {
						c.violate("select-differs-from-overlap", map[string]any{"range": lo.Format(time.RFC3339Nano) + ".." + hi.Format(time.RFC3339Nano), "segment": b.String(), "expected_selected": want})
					}
				}
				s.Count("c06.range_selections", 1)
			}
		}
		s.Case(fmt.Sprintf("%s/%s/%d/%v", zone, ruleString(rule), h, c.hist), nontrivial)
		if h < 2 {
			hs := c.hist
			if len(hs) > 8 {
				hs = hs[:8]
			}
			s.Sample(map[string]any{"zone": zone, "rule": ruleString(rule), "ops": hs})
		}
		if v != nil {
			v.db.Close()
		}
		os.RemoveAll(dir)
	}
	os.RemoveAll(base)
	s.Done()
	_ = rand.Int
}

func clip(s string, n int) string {
	if len(s) > n {
		return s[:n]
	}
	return s
}
