package storage

// Shared white-box machinery for the storage-layer checks (C06, C07, C14, C19): a trivial TSTable, a TSDB
// opened on a mock clock, and helpers that read the segment list without touching reference counts.

import (
	"context"
	"fmt"
	"os"
	"path/filepath"
	"sort"
	"sync"
	"sync/atomic"
	"time"

	"github.com/apache/skywalking-banyandb/api/common"
	commonv1 "github.com/apache/skywalking-banyandb/api/proto/banyandb/common/v1"
	"github.com/apache/skywalking-banyandb/pkg/fs"
	"github.com/apache/skywalking-banyandb/pkg/logger"
	"github.com/apache/skywalking-banyandb/pkg/timestamp"
)

var (
	tablesOpened atomic.Int64
	tablesClosed atomic.Int64
	// failTableOpen makes the next N table creations fail (fault injection for partial acquisitions).
	failTableOpen atomic.Int64
)

type vTable struct {
	root   string
	closed atomic.Bool
	mu     sync.Mutex // the table's own consistency: its snapshot copies under it, swapGeneration writes under it
}

// swapGeneration replaces the files gen<from>-* of the table directory by gen<to>-* one by one, as one change of
// the table's state (C19: a snapshot must hold the state before or the state after, nothing in between).
func (t *vTable) swapGeneration(from, to, n int) {
	t.mu.Lock()
	defer t.mu.Unlock()
	for k := n - 1; k >= 0; k-- { // against the direction of a directory walk, so that a concurrent walk meets the change
		os.WriteFile(filepath.Join(t.root, fmt.Sprintf("gen%d-%04d.bin", to, k)), []byte("x"), 0o644)
		os.Remove(filepath.Join(t.root, fmt.Sprintf("gen%d-%04d.bin", from, k)))
	}
}

func (t *vTable) Close() error {
	t.closed.Store(true)
	tablesClosed.Add(1)
	return nil
}
func (*vTable) Collect(Metrics) {}

// snapshot instrumentation of the fake table (C19): a table must not be closed while its snapshot is running
var (
	snapshotDelayNs           atomic.Int64
	snapshotsStarted          atomic.Int64
	tableClosedDuringSnapshot atomic.Int64
)

func (t *vTable) TakeFileSnapshot(dst string) (bool, error) {
	snapshotsStarted.Add(1)
	if t.closed.Load() {
		tableClosedDuringSnapshot.Add(1)
	}
	if d := snapshotDelayNs.Load(); d > 0 {
		time.Sleep(time.Duration(d))
	}
	if t.closed.Load() {
		tableClosedDuringSnapshot.Add(1)
	}
	t.mu.Lock()
	defer t.mu.Unlock()
	ents, _ := os.ReadDir(t.root)
	for _, e := range ents {
		if !e.IsDir() {
			if b, err := os.ReadFile(filepath.Join(t.root, e.Name())); err == nil {
				os.WriteFile(filepath.Join(dst, e.Name()), b, 0o644)
			}
		}
	}
	return len(ents) > 0, nil
}

func vTableCreator(_ fs.FileSystem, root string, _ common.Position, _ *logger.Logger, _ timestamp.TimeRange, _ any, _ any) (*vTable, error) {
	if failTableOpen.Load() > 0 {
		if failTableOpen.Add(-1) >= 0 {
			return nil, fmt.Errorf("verif: injected table open failure")
		}
	}
	tablesOpened.Add(1)
	os.MkdirAll(root, 0o755)
	return &vTable{root: root}, nil
}

type vdb struct {
	db    *database[*vTable, any]
	sc    *segmentController[*vTable, any]
	clock timestamp.MockClock
	dir   string
}

type dbOpts struct {
	interval         IntervalRule
	ttl              IntervalRule
	shards           uint32
	idle             time.Duration
	disableRetention bool
}

func init() {
	_ = logger.Init(logger.Logging{Env: "prod", Level: "error"})
}

func openVDB(dir string, clock timestamp.MockClock, o dbOpts) (*vdb, error) {
	if o.shards == 0 {
		o.shards = 1
	}
	ctx := timestamp.SetClock(context.Background(), clock)
	ctx = common.SetPosition(ctx, func(p common.Position) common.Position {
		p.Database = "verif"
		return p
	})
	d, err := OpenTSDB(ctx, TSDBOpts[*vTable, any]{
		Location: dir, SegmentInterval: o.interval, TTL: o.ttl, ShardNum: o.shards, TSTableCreator: vTableCreator,
		SegmentIdleTimeout: o.idle, DisableRetention: o.disableRetention, DisableRotation: true, SeriesIndexFlushTimeoutSeconds: 10,
	}, nil, "verif-group")
	if err != nil {
		return nil, err
	}
	db := d.(*database[*vTable, any])
	return &vdb{db: db, sc: db.segmentController, clock: clock, dir: dir}, nil
}

type span struct {
	start, end time.Time
	suffix     string
}

func (s span) String() string {
	return fmt.Sprintf("[%s, %s)", s.start.Format(time.RFC3339), s.end.Format(time.RFC3339))
}

// spans lists the controller's segments (no refcount change), sorted by start.
func (v *vdb) spans() []span {
	var out []span
	for _, s := range v.sc.copySegments() {
		out = append(out, span{s.Start, s.End, s.suffix})
	}
	sort.Slice(out, func(i, j int) bool { return out[i].start.Before(out[j].start) })
	return out
}

func resourceOpts(interval, ttl IntervalRule, shards uint32) *commonv1.ResourceOpts {
	conv := func(r IntervalRule) *commonv1.IntervalRule {
		u := commonv1.IntervalRule_UNIT_HOUR
		if r.Unit == DAY {
			u = commonv1.IntervalRule_UNIT_DAY
		}
		return &commonv1.IntervalRule{Unit: u, Num: uint32(r.Num)}
	}
	return &commonv1.ResourceOpts{ShardNum: shards, SegmentInterval: conv(interval), Ttl: conv(ttl)}
}

var vdirSeq atomic.Int64

func freshVDir(base string) string {
	d := filepath.Join(base, fmt.Sprint("db", vdirSeq.Add(1)))
	os.MkdirAll(d, 0o755)
	return d
}

func ruleString(r IntervalRule) string {
	u := "HOUR"
	if r.Unit == DAY {
		u = "DAY"
	}
	return fmt.Sprintf("%sx%d", u, r.Num)
}

// safely runs f and converts a panic into an error string (the controller's locks are released by its defers).
func safely(f func()) (panicked string) {
	defer func() {
		if r := recover(); r != nil {
			panicked = fmt.Sprint(r)
		}
	}()
	f()
	return ""
}
