package sidx

// White-box checks of the ordered secondary index:
//   C09: StreamingQuery and QuerySync return every matching entry of a key range exactly once, in key order,
//        and agree with each other, for any batch size;
//   C03: the same answers before and after every flush / merge step (the harness is the scheduler);
//   C08: block pruning by key range, timestamp range and tag min/max never discards a matching entry.

import (
	"context"
	"fmt"
	"math"
	"math/rand"
	"os"
	"path/filepath"
	"sort"
	"strings"
	"testing"
	"time"

	"github.com/apache/skywalking-banyandb/api/common"
	modelv1 "github.com/apache/skywalking-banyandb/api/proto/banyandb/model/v1"
	"github.com/apache/skywalking-banyandb/banyand/observability"
	"github.com/apache/skywalking-banyandb/banyand/protector"
	"github.com/apache/skywalking-banyandb/pkg/convert"
	"github.com/apache/skywalking-banyandb/pkg/fs"
	"github.com/apache/skywalking-banyandb/pkg/index"
	"github.com/apache/skywalking-banyandb/pkg/index/posting"
	pbv1 "github.com/apache/skywalking-banyandb/pkg/pb/v1"
	"github.com/apache/skywalking-banyandb/pkg/verifh"
)

type ventry struct {
	data string
	sid  common.SeriesID
	key  int64
	lat  int64 // int tag carried for the min/max pruning check
	ts   int64
}

// latLE is a block filter + row matcher for "lat <= v", built the way the trace layer builds it.
type latLE struct{ v int64 }

func (f latLE) String() string { return fmt.Sprintf("lat<=%d", f.v) }
func (f latLE) Execute(index.GetSearcher, common.SeriesID, *index.RangeOpts) (posting.List, posting.List, error) {
	return nil, nil, nil
}

func (f latLE) ShouldSkip(op index.FilterOp) (bool, error) {
	return op.Range("lat", index.NewIntRangeOpts(math.MinInt64, f.v, false, true))
}

type latGE struct{ v int64 }

func (f latGE) String() string { return fmt.Sprintf("lat>=%d", f.v) }
func (f latGE) Execute(index.GetSearcher, common.SeriesID, *index.RangeOpts) (posting.List, posting.List, error) {
	return nil, nil, nil
}

func (f latGE) ShouldSkip(op index.FilterOp) (bool, error) {
	return op.Range("lat", index.NewIntRangeOpts(f.v, math.MaxInt64, true, false))
}

type vsidx struct {
	s      *sidx
	dir    string
	nextID uint64
}

func openVSidx(dir string) (*vsidx, error) {
	opts := NewDefaultOptions()
	opts.Memory = protector.NewMemory(observability.NewBypassRegistry())
	opts.Path = dir
	opts.AvailablePartIDs = []uint64{}
	si, err := NewSIDX(fs.NewLocalFileSystem(), opts)
	if err != nil {
		return nil, err
	}
	return &vsidx{s: si.(*sidx), dir: dir, nextID: 1}, nil
}

func (v *vsidx) write(es []ventry, withTS bool) (uint64, error) {
	reqs := make([]WriteRequest, len(es))
	var minTS, maxTS *int64
	for i, e := range es {
		reqs[i] = WriteRequest{SeriesID: e.sid, Key: e.key, Data: []byte(e.data),
			Tags: []Tag{{Name: "lat", Value: convert.Int64ToBytes(e.lat), ValueType: pbv1.ValueTypeInt64}}}
		if withTS {
			ts := e.ts
			if minTS == nil || ts < *minTS {
				minTS = &ts
			}
			ts2 := e.ts
			if maxTS == nil || ts2 > *maxTS {
				maxTS = &ts2
			}
		}
	}
	mp, err := v.s.ConvertToMemPart(reqs, 1, minTS, maxTS)
	if err != nil {
		return 0, err
	}
	id := v.nextID
	v.nextID++
	v.s.IntroduceMemPart(id, mp)
	return id, nil
}

func (v *vsidx) parts() (mem, file []uint64) {
	snp := v.s.currentSnapshot()
	if snp == nil {
		return nil, nil
	}
	defer snp.decRef()
	for _, pw := range snp.parts {
		if pw.isMemPart() {
			mem = append(mem, pw.ID())
		} else {
			file = append(file, pw.ID())
		}
	}
	return mem, file
}

func idSet(ids []uint64) map[uint64]struct{} {
	m := map[uint64]struct{}{}
	for _, id := range ids {
		m[id] = struct{}{}
	}
	return m
}

func (v *vsidx) flush(ids []uint64) error {
	intro, err := v.s.Flush(idSet(ids))
	if err != nil {
		return err
	}
	if intro == nil {
		return nil
	}
	v.s.IntroduceFlushed(intro)
	intro.Release()
	return nil
}

func (v *vsidx) merge(ids []uint64) error {
	id := v.nextID
	v.nextID++
	intro, err := v.s.Merge(nil, idSet(ids), id, nil)
	if err != nil {
		return err
	}
	if intro == nil {
		return fmt.Errorf("merge returned no introduction")
	}
	v.s.IntroduceMerged(intro)()
	return nil
}

type vquery struct {
	minKey, maxKey *int64
	minTS, maxTS   *int64
	filter         string // "", "le", "ge"
	fv             int64
	sids           []common.SeriesID
	batch          int
	asc            bool
}

func (q vquery) String() string {
	p := func(x *int64) string {
		if x == nil {
			return "-"
		}
		return fmt.Sprint(*x)
	}
	return fmt.Sprintf("keys[%s,%s] ts[%s,%s] filter=%s%d sids=%v batch=%d asc=%v", p(q.minKey), p(q.maxKey), p(q.minTS), p(q.maxTS), q.filter, q.fv, q.sids, q.batch, q.asc)
}

func (q vquery) request() QueryRequest {
	req := QueryRequest{SeriesIDs: q.sids, MinKey: q.minKey, MaxKey: q.maxKey, MinTimestamp: q.minTS, MaxTimestamp: q.maxTS, MaxBatchSize: q.batch}
	srt := modelv1.Sort_SORT_DESC
	if q.asc {
		srt = modelv1.Sort_SORT_ASC
	}
	req.Order = &index.OrderBy{Sort: srt}
	switch q.filter {
	case "le":
		req.Filter = latLE{q.fv}
	case "ge":
		req.Filter = latGE{q.fv}
	}
	return req
}

type vhit struct {
	data string
	key  int64
}

// expected entries. partTS: the timestamp bounds apply to whole parts (an entry is visible iff its part's
// range overlaps), so the model only uses them when every part is written without timestamps or the query has none.
func (q vquery) matches(e ventry) bool {
	okSid := false
	for _, s := range q.sids {
		if s == e.sid {
			okSid = true
		}
	}
	if !okSid {
		return false
	}
	if q.minKey != nil && e.key < *q.minKey {
		return false
	}
	if q.maxKey != nil && e.key > *q.maxKey {
		return false
	}
	return true
}

func collect(rs []*QueryResponse) ([]vhit, error) {
	var out []vhit
	for _, r := range rs {
		if r == nil {
			continue
		}
		if r.Error != nil {
			return out, r.Error
		}
		for i := range r.Keys {
			out = append(out, vhit{data: string(r.Data[i]), key: r.Keys[i]})
		}
	}
	return out, nil
}

func (v *vsidx) run(q vquery) (syncHits, streamHits, topN []vhit, err error) {
	ctx, cancel := context.WithTimeout(context.Background(), 60*time.Second)
	defer cancel()
	// QuerySync treats MaxBatchSize as a bound on the whole result (ordered top-N); the complete answer is
	// requested with 0, the top-N variant separately.
	full := q.request()
	full.MaxBatchSize = 0
	rs, err := v.s.QuerySync(ctx, full)
	if err != nil {
		return nil, nil, nil, fmt.Errorf("QuerySync: %w", err)
	}
	if syncHits, err = collect(rs); err != nil {
		return nil, nil, nil, fmt.Errorf("QuerySync response: %w", err)
	}
	if q.batch > 0 {
		rs, err = v.s.QuerySync(ctx, q.request())
		if err != nil {
			return nil, nil, nil, fmt.Errorf("QuerySync(top-N): %w", err)
		}
		if topN, err = collect(rs); err != nil {
			return nil, nil, nil, fmt.Errorf("QuerySync(top-N) response: %w", err)
		}
	}
	ch, errCh := v.s.StreamingQuery(ctx, q.request())
	for r := range ch {
		if r == nil {
			continue
		}
		if r.Error != nil {
			return nil, nil, nil, fmt.Errorf("StreamingQuery response: %w", r.Error)
		}
		for i := range r.Keys {
			streamHits = append(streamHits, vhit{data: string(r.Data[i]), key: r.Keys[i]})
		}
	}
	for e := range errCh {
		if e != nil {
			return nil, nil, nil, fmt.Errorf("StreamingQuery: %w", e)
		}
	}
	return syncHits, streamHits, topN, nil
}

// judge compares one interface's hits with the model. sup: entries that must be returned; all: entries that may.
func judge(hits []vhit, must, may map[string]int64, asc bool, label string) string {
	seen := map[string]bool{}
	for i, h := range hits {
		if seen[h.data] {
			return fmt.Sprintf("%s: entry %s returned twice", label, h.data)
		}
		seen[h.data] = true
		k, ok := may[h.data]
		if !ok {
			return fmt.Sprintf("%s: entry %s (key %d) does not match the request", label, h.data, h.key)
		}
		if k != h.key {
			return fmt.Sprintf("%s: entry %s carries key %d, written key %d", label, h.data, h.key, k)
		}
		if i > 0 && ((asc && hits[i-1].key > h.key) || (!asc && hits[i-1].key < h.key)) {
			return fmt.Sprintf("%s: keys out of order at position %d: %d then %d", label, i, hits[i-1].key, h.key)
		}
	}
	for d, k := range must {
		if !seen[d] {
			return fmt.Sprintf("%s: matching entry %s (key %d) missing; %d returned, %d expected", label, d, k, len(hits), len(must))
		}
	}
	return ""
}

func sameHits(a, b []vhit) bool {
	if len(a) != len(b) {
		return false
	}
	x, y := append([]vhit(nil), a...), append([]vhit(nil), b...)
	less := func(s []vhit) func(i, j int) bool {
		return func(i, j int) bool {
			if s[i].key != s[j].key {
				return s[i].key < s[j].key
			}
			return s[i].data < s[j].data
		}
	}
	sort.Slice(x, less(x))
	sort.Slice(y, less(y))
	for i := range x {
		if x[i] != y[i] {
			return false
		}
	}
	return true
}

func genQuery(r *rand.Rand, entries []ventry, allSids []common.SeriesID) vquery {
	q := vquery{asc: r.Intn(2) == 0, batch: []int{0, 1, 2, 7, 100}[r.Intn(5)], sids: allSids}
	if r.Intn(4) == 0 && len(allSids) > 1 {
		q.sids = []common.SeriesID{allSids[r.Intn(len(allSids))]}
	}
	pick := func() int64 {
		k := entries[r.Intn(len(entries))].key
		return k + int64(r.Intn(3)-1)
	}
	switch r.Intn(4) {
	case 0:
		a, b := pick(), pick()
		if a > b {
			a, b = b, a
		}
		q.minKey, q.maxKey = &a, &b
	case 1:
		a := pick()
		q.minKey = &a
	case 2:
		b := pick()
		q.maxKey = &b
	}
	if r.Intn(3) == 0 {
		q.fv = entries[r.Intn(len(entries))].lat + int64(r.Intn(3)-1)
		q.filter = []string{"le", "ge"}[r.Intn(2)]
	}
	return q
}

// checkQueries runs seeded queries and returns the first discrepancy.
func checkQueries(s *verifh.Sink, v *vsidx, entries []ventry, sids []common.SeriesID, r *rand.Rand, n int, withTS bool) (string, string) {
	for i := 0; i < n; i++ {
		q := genQuery(r, entries, sids)
		if withTS && r.Intn(2) == 0 {
			a, b := entries[r.Intn(len(entries))].ts, entries[r.Intn(len(entries))].ts
			if a > b {
				a, b = b, a
			}
			switch i % 3 { // windows hugging the extreme timestamps: the recorded part ranges must cover them
			case 1:
				for _, e := range entries {
					b = max(b, e.ts)
				}
				a = b
			case 2:
				for _, e := range entries {
					a = min(a, e.ts)
				}
				b = a
			}
			q.minTS, q.maxTS = &a, &b
		}
		must, may := map[string]int64{}, map[string]int64{}
		for _, e := range entries {
			if !q.matches(e) {
				continue
			}
			rowOK := true
			switch q.filter {
			case "le":
				rowOK = e.lat <= q.fv
			case "ge":
				rowOK = e.lat >= q.fv
			}
			// The block filter only prunes; rows of surviving blocks are not filtered by it. So an entry whose
			// own value satisfies the condition MUST come back, the others MAY.
			may[e.data] = e.key
			tsOK := q.minTS == nil || (e.ts >= *q.minTS && e.ts <= *q.maxTS)
			// timestamp bounds select whole parts: entries inside the window must come back, others may
			if rowOK && tsOK {
				must[e.data] = e.key
			}
		}
		sy, st, topN, err := v.run(q)
		s.Count("sidx.queries", 1)
		if err != nil {
			return "query-error", fmt.Sprintf("%s: %v", q, err)
		}
		// Known limitation (recorded finding): the scanner hands blocks over in batches (MaxBatchSize blocks, 32
		// when unbounded) and each batch is drained completely, so global key order is only guaranteed while
		// all candidate blocks fit in one batch. Ordering is judged strictly below that bound.
		mem, file := v.parts()
		blocksUpper := (len(mem) + len(file)) * len(q.sids)
		orderKnown := func(d string, threshold int) bool {
			return strings.Contains(d, "keys out of order") && blocksUpper > threshold
		}
		if d := judge(sy, must, may, q.asc, "QuerySync"); d != "" {
			if orderKnown(d, 32) {
				return "out-of-order-across-scan-batches", fmt.Sprintf("%s: %s", q, d)
			}
			return "sync", fmt.Sprintf("%s: %s", q, d)
		}
		if d := judge(st, must, may, q.asc, "StreamingQuery"); d != "" {
			th := 32
			if q.batch > 0 {
				th = q.batch
			}
			if orderKnown(d, th) {
				return "out-of-order-across-scan-batches", fmt.Sprintf("%s: %s", q, d)
			}
			return "streaming", fmt.Sprintf("%s: %s", q, d)
		}
		if q.filter == "" && q.minTS == nil && !sameHits(sy, st) {
			return "sync-vs-streaming", fmt.Sprintf("%s: QuerySync returned %d entries, StreamingQuery %d", q, len(sy), len(st))
		}
		// top-N: sorted, drawn from the matching entries, and at least min(N, all) of them whose keys are the first N keys
		if q.batch > 0 && q.filter == "" && q.minTS == nil && blocksUpper <= q.batch {
			if d := judge(topN, map[string]int64{}, may, q.asc, "QuerySync(top-N)"); d != "" {
				return "sync-topn", fmt.Sprintf("%s: %s", q, d)
			}
			want := min(q.batch, len(sy))
			if len(topN) < want {
				return "sync-topn", fmt.Sprintf("%s: top-%d returned %d entries although %d match", q, q.batch, len(topN), len(sy))
			}
			for i := 0; i < want; i++ {
				if topN[i].key != sy[i].key {
					return "sync-topn", fmt.Sprintf("%s: top-N position %d has key %d, the full ordered answer has %d", q, i, topN[i].key, sy[i].key)
				}
			}
		}
	}
	return "", ""
}

func genEntries(r *rand.Rand, n, nSeries int, uid *int64, keyDomain int64) []ventry {
	out := make([]ventry, n)
	for i := range out {
		*uid++
		sid := common.SeriesID(1 + r.Intn(nSeries))
		out[i] = ventry{sid: sid, key: r.Int63n(keyDomain) - keyDomain/4, data: fmt.Sprint("u", *uid), lat: int64(r.Intn(200)) - 50, ts: 1000 + r.Int63n(5000)}
		// lower series ids own the larger keys in some batches (primary-block max-key bookkeeping)
		if r.Intn(3) == 0 {
			out[i].key += int64(nSeries-int(sid)) * keyDomain
		}
	}
	return out
}

// repeatedPayloads: the index de-duplicates equal payloads inside a block, but an entry outside the requested key
// range must not suppress the in-range entry that carries the same payload. Every payload is written twice in
// one series and one part; each query's bounds hold exactly one of the two, which therefore has to come back.
func repeatedPayloads(s *verifh.Sink, base string) {
	for c := 0; c < verifh.Pick(40, 600); c++ {
		r := verifh.Rand("sidxdup", c)
		dir := filepath.Join(base, fmt.Sprint("dup", c))
		os.MkdirAll(dir, 0o755)
		v, err := openVSidx(dir)
		if err != nil {
			s.Violation("sidx:open", map[string]any{"err": err.Error()})
			continue
		}
		n := 2 + r.Intn(12)
		var es []ventry
		for i := 0; i < n; i++ { // low keys 0..n-1, high keys 1000..1000+n-1, same payload for i in both halves
			es = append(es, ventry{sid: 1, key: int64(i), data: fmt.Sprint("p", i), lat: 1, ts: 1000}, ventry{sid: 1, key: int64(1000 + i), data: fmt.Sprint("p", i), lat: 1, ts: 1000})
		}
		r.Shuffle(len(es), func(a, b int) { es[a], es[b] = es[b], es[a] })
		id, werr := v.write(es, false)
		bad := ""
		if werr != nil {
			bad = "write failed: " + werr.Error()
		}
		if bad == "" && r.Intn(2) == 0 {
			if ferr := v.flush([]uint64{id}); ferr != nil {
				bad = "flush failed: " + ferr.Error()
			}
		}
		for _, q := range []struct {
			lo, hi int64
			asc    bool
		}{{500, 5000, true}, {500, 5000, false}, {-10, 500, true}, {-10, 500, false}} {
			if bad != "" {
				break
			}
			lo, hi := q.lo, q.hi
			vq := vquery{sids: []common.SeriesID{1}, minKey: &lo, maxKey: &hi, asc: q.asc}
			sy, st, _, rerr := v.run(vq)
			if rerr != nil {
				bad = rerr.Error()
				break
			}
			for name, hits := range map[string][]vhit{"QuerySync": sy, "StreamingQuery": st} {
				got := map[string]int64{}
				for _, h := range hits {
					got[h.data] = h.key
				}
				for i := 0; i < n; i++ {
					wantKey := int64(i)
					if lo == 500 {
						wantKey = int64(1000 + i)
					}
					if k, ok := got[fmt.Sprint("p", i)]; !ok || k != wantKey {
						bad = fmt.Sprintf("%s keys [%d,%d] asc=%v: the only in-range entry of payload p%d (key %d) is missing (returned %d entries)", name, lo, hi, q.asc, i, wantKey, len(hits))
					}
				}
			}
		}
		s.Case(fmt.Sprint("dup/", c, n), true)
		s.Count("sidx.repeated_payload_cases", 1)
		if bad != "" {
			s.Violation("sidx:in-range-entry-suppressed-by-an-out-of-range-entry-with-the-same-payload", map[string]any{"case": c, "payloads": n, "discrepancy": bad})
		}
		v.s.Close()
		os.RemoveAll(dir)
	}
}

func TestVerifSIDX(t *testing.T) {
	s := verifh.S()
	base := filepath.Join(verifh.Scratch(), "sidx")
	repeatedPayloads(s, base)
	var uid int64
	nHist := verifh.Pick(50, 800)
	for h := 0; h < nHist; h++ {
		r := verifh.Rand("sidx", h)
		dir := filepath.Join(base, fmt.Sprint("h", h))
		os.MkdirAll(dir, 0o755)
		v, err := openVSidx(dir)
		if err != nil {
			s.Violation("sidx:open", map[string]any{"err": err.Error()})
			continue
		}
		nSeries := 1 + r.Intn(4)
		sids := []common.SeriesID{1, 2, 3, 4}[:nSeries]
		withTS := r.Intn(2) == 0
		keyDomain := []int64{20, 1000, 1 << 40}[r.Intn(3)]
		var entries []ventry
		var trace []string
		maintenance := 0
		bad, kind := "", ""
		steps := 5 + r.Intn(12)
		for step := 0; step < steps && bad == ""; step++ {
			mem, file := v.parts()
			switch op := r.Intn(10); {
			case op < 4 || len(entries) == 0:
				es := genEntries(r, 1+r.Intn(150), nSeries, &uid, keyDomain)
				if _, err := v.write(es, withTS); err != nil {
					bad, kind = "write failed: "+err.Error(), "write"
					break
				}
				entries = append(entries, es...)
				trace = append(trace, fmt.Sprintf("write(%d)", len(es)))
			case op < 7 && len(mem) > 0:
				k := 1 + r.Intn(len(mem))
				if err := v.flush(mem[:k]); err != nil {
					bad, kind = "flush failed: "+err.Error(), "flush"
					break
				}
				maintenance++
				trace = append(trace, fmt.Sprintf("flush(%v)", mem[:k]))
				s.Count("sidx.flushes", 1)
			case len(file) >= 2:
				r.Shuffle(len(file), func(i, j int) { file[i], file[j] = file[j], file[i] })
				k := 2 + r.Intn(len(file)-1)
				if err := v.merge(file[:k]); err != nil {
					bad, kind = "merge failed: "+err.Error(), "merge"
					break
				}
				maintenance++
				trace = append(trace, fmt.Sprintf("merge(%v)", file[:k]))
				s.Count(fmt.Sprintf("sidx.merge.fanin%d", min(k, 6)), 1)
			default:
				continue
			}
			if bad == "" && len(entries) > 0 {
				kind, bad = checkQueries(s, v, entries, sids, r, 6, withTS)
				if kind == "out-of-order-across-scan-batches" {
					s.Violation("sidx:"+kind, map[string]any{"history": append([]string(nil), trace...), "discrepancy": bad})
					kind, bad = "", "" // recorded; keep exercising the history
				}
			}
		}
		s.Case(fmt.Sprintf("sidx/%d/%v", h, trace), maintenance > 0 && len(entries) > 1)
		if h < 2 {
			s.Sample(map[string]any{"engine": "sidx", "history": trace, "entries": len(entries)})
		}
		if bad != "" {
			s.Violation("sidx:"+kind, map[string]any{"history": trace, "discrepancy": bad, "entries": len(entries), "parts_with_timestamps": withTS})
		}
		v.s.Close()
		os.RemoveAll(dir)
	}
	os.RemoveAll(base)
	s.Done()
}
