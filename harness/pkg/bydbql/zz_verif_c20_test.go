package bydbql_test

// C20 — bound BydbQL parameters are data, never syntax.
// Translation validation: every generated statement is executed (a) with positional parameters through the
// one-shot binder, (b) through Prepare/Bind/TransformBound, and (c) as its literal twin rendered by an
// independent quoter written from the lexer rules; the produced request protos must be equal.

import (
	"context"
	"fmt"
	"math"
	"math/rand"
	"sort"
	"strings"
	"sync"
	"testing"
	"time"

	"google.golang.org/protobuf/encoding/prototext"
	"google.golang.org/protobuf/proto"
	"google.golang.org/protobuf/reflect/protoreflect"
	"google.golang.org/protobuf/types/known/timestamppb"

	commonv1 "github.com/apache/skywalking-banyandb/api/proto/banyandb/common/v1"
	databasev1 "github.com/apache/skywalking-banyandb/api/proto/banyandb/database/v1"
	modelv1 "github.com/apache/skywalking-banyandb/api/proto/banyandb/model/v1"
	"github.com/apache/skywalking-banyandb/banyand/metadata"
	"github.com/apache/skywalking-banyandb/banyand/metadata/schema"
	"github.com/apache/skywalking-banyandb/pkg/bydbql"
	"github.com/apache/skywalking-banyandb/pkg/verifh"
)

// ---- fake registry --------------------------------------------------------------------------------------

var tagFamilies = []*databasev1.TagFamilySpec{
	{Name: "default", Tags: []*databasev1.TagSpec{
		{Name: "svc", Type: databasev1.TagType_TAG_TYPE_STRING},
		{Name: "inst", Type: databasev1.TagType_TAG_TYPE_STRING},
		{Name: "n", Type: databasev1.TagType_TAG_TYPE_INT},
		{Name: "codes", Type: databasev1.TagType_TAG_TYPE_INT_ARRAY},
		{Name: "labels", Type: databasev1.TagType_TAG_TYPE_STRING_ARRAY},
		{Name: "msg", Type: databasev1.TagType_TAG_TYPE_STRING},
	}},
}

type fStream struct{ schema.Stream }

func (fStream) GetStream(_ context.Context, md *commonv1.Metadata) (*databasev1.Stream, error) {
	return &databasev1.Stream{Metadata: md, TagFamilies: tagFamilies, Entity: &databasev1.Entity{TagNames: []string{"svc"}}}, nil
}

type fMeasure struct{ schema.Measure }

func (fMeasure) GetMeasure(_ context.Context, md *commonv1.Metadata) (*databasev1.Measure, error) {
	return &databasev1.Measure{Metadata: md, TagFamilies: tagFamilies, Entity: &databasev1.Entity{TagNames: []string{"svc"}},
		Fields: []*databasev1.FieldSpec{{Name: "v", FieldType: databasev1.FieldType_FIELD_TYPE_INT}, {Name: "f", FieldType: databasev1.FieldType_FIELD_TYPE_FLOAT}}}, nil
}

type fTrace struct{ schema.Trace }

func (fTrace) GetTrace(_ context.Context, md *commonv1.Metadata) (*databasev1.Trace, error) {
	return &databasev1.Trace{Metadata: md, TraceIdTagName: "trace_id", TimestampTagName: "ts", SpanIdTagName: "span_id", Tags: []*databasev1.TraceTagSpec{
		{Name: "trace_id", Type: databasev1.TagType_TAG_TYPE_STRING}, {Name: "span_id", Type: databasev1.TagType_TAG_TYPE_STRING},
		{Name: "ts", Type: databasev1.TagType_TAG_TYPE_TIMESTAMP}, {Name: "svc", Type: databasev1.TagType_TAG_TYPE_STRING}, {Name: "n", Type: databasev1.TagType_TAG_TYPE_INT},
	}}, nil
}

type fProperty struct{ schema.Property }

func (fProperty) GetProperty(_ context.Context, md *commonv1.Metadata) (*databasev1.Property, error) {
	return &databasev1.Property{Metadata: md, Tags: tagFamilies[0].Tags}, nil
}

type fTopN struct{ schema.TopNAggregation }

func (fTopN) GetTopNAggregation(_ context.Context, md *commonv1.Metadata) (*databasev1.TopNAggregation, error) {
	return &databasev1.TopNAggregation{Metadata: md, SourceMeasure: &commonv1.Metadata{Name: "m1", Group: md.Group}, FieldName: "v", GroupByTagNames: []string{"svc"}}, nil
}

type fRepo struct{ metadata.Repo }

func (fRepo) StreamRegistry() schema.Stream                   { return fStream{} }
func (fRepo) MeasureRegistry() schema.Measure                 { return fMeasure{} }
func (fRepo) TraceRegistry() schema.Trace                     { return fTrace{} }
func (fRepo) PropertyRegistry() schema.Property               { return fProperty{} }
func (fRepo) TopNAggregationRegistry() schema.TopNAggregation { return fTopN{} }

// ---- statement model ------------------------------------------------------------------------------------

type slotKind int

const (
	kScalar slotKind = iota
	kList
	kTime
	kCount
)

type slot struct {
	kind   slotKind
	max    int64 // for counts
	tag    string
	single bool // list slot in a single-value position: MATCH(?) / HAVING ? (an array literal needs parentheses there)
}

// stmt is a statement with holes: parts[0] hole0 parts[1] hole1 ... parts[n].
type stmt struct {
	form  string
	parts []string
	slots []slot
}

func build(form string, pieces ...any) stmt {
	s := stmt{form: form}
	cur := ""
	for _, p := range pieces {
		switch v := p.(type) {
		case string:
			cur += v
		case slot:
			s.parts = append(s.parts, cur)
			cur = ""
			s.slots = append(s.slots, v)
		}
	}
	s.parts = append(s.parts, cur)
	return s
}

var (
	sS   = slot{kind: kScalar, tag: "str"}
	sI   = slot{kind: kScalar, tag: "int"}
	sL   = slot{kind: kList, tag: "str"}
	sLI  = slot{kind: kList, tag: "int"}
	sL1  = slot{kind: kList, tag: "str", single: true}
	sLI1 = slot{kind: kList, tag: "int", single: true}
	sT   = slot{kind: kTime}
	sLim = slot{kind: kCount, max: math.MaxUint32}
	sTop = slot{kind: kCount, max: math.MaxInt32}
)

func statements() []stmt {
	return []stmt{
		build("stream-eq", "SELECT * FROM STREAM sw IN g1 TIME BETWEEN ", sT, " AND ", sT, " WHERE svc = ", sS, " AND n > ", sI, " LIMIT ", sLim, " OFFSET ", sLim),
		build("stream-in-or", "SELECT svc, n FROM STREAM sw IN (g1, g2) WHERE svc IN (", sL, ", ", sL, ") OR n != ", sI, " ORDER BY n DESC LIMIT ", sLim),
		build("stream-in-mixed", "SELECT * FROM STREAM sw IN g1 WHERE svc IN ('lit', ", sL, ", 'b') AND inst NOT IN (", sL, ")"),
		build("stream-having", "SELECT * FROM STREAM sw IN g1 WHERE labels HAVING (", sL, ", ", sL, ") AND codes NOT HAVING ", sLI1, " LIMIT ", sLim),
		build("stream-having-paren1", "SELECT * FROM STREAM sw IN g1 WHERE labels HAVING (", sL, ") OR codes NOT HAVING (", sLI, ") LIMIT ", sLim),
		build("stream-match-paren1", "SELECT * FROM STREAM sw IN g1 WHERE msg MATCH((", sL, "), 'simple', 'OR') AND svc = ", sS),
		build("stream-match", "SELECT svc, msg FROM STREAM sw IN g1 TIME = ", sT, " WHERE msg MATCH(", sL1, ") AND svc != ", sS),
		build("stream-match-analyzer", "SELECT * FROM STREAM sw IN g1 WHERE msg MATCH((", sL, ", ", sL, "), 'simple', 'OR') OR (svc = ", sS, " AND n <= ", sI, ")"),
		build("stream-paren", "SELECT * FROM STREAM sw IN g1 TIME < ", sT, " WHERE (svc = ", sS, " OR inst = ", sS, ") AND (n >= ", sI, " OR n < ", sI, ") OFFSET ", sLim),
		build("measure-agg", "SELECT svc::TAG, SUM(v) FROM MEASURE m1 IN g1 TIME BETWEEN ", sT, " AND ", sT, " WHERE svc = ", sS, " GROUP BY svc LIMIT ", sLim),
		build("measure-top", "SELECT TOP ", sTop, " v DESC, svc FROM MEASURE m1 IN g1 TIME BETWEEN ", sT, " AND ", sT, " WHERE inst IN (", sL, ")"),
		build("measure-fields", "SELECT svc, v, f FROM MEASURE m1 IN g1 TIME <= ", sT, " WHERE n = ", sI, " OR svc != ", sS, " ORDER BY TIME DESC LIMIT ", sLim, " OFFSET ", sLim),
		build("show-top", "SHOW TOP ", sTop, " FROM MEASURE top1 IN g1 TIME BETWEEN ", sT, " AND ", sT, " WHERE svc = ", sS, " AGGREGATE BY MAX ORDER BY DESC"),
		build("trace", "SELECT * FROM TRACE t1 IN g1 TIME BETWEEN ", sT, " AND ", sT, " WHERE trace_id = ", sS, " AND n > ", sI, " LIMIT ", sLim),
		build("trace-in", "SELECT trace_id, svc FROM TRACE t1 IN g1 TIME < ", sT, " WHERE trace_id IN (", sL, ") ORDER BY n ASC LIMIT ", sLim),
		build("property", "SELECT svc, n FROM PROPERTY p1 IN g1 WHERE id = ", sS, " LIMIT ", sLim),
		build("property-in", "SELECT * FROM PROPERTY p1 IN g1 WHERE id IN (", sL, ", ", sL, ") AND svc = ", sS),
		build("null", "SELECT * FROM STREAM sw IN g1 WHERE svc = ", sS, " AND inst != ", sS),
	}
}

// ---- parameter values ------------------------------------------------------------------------------------

var hostileStrings = []string{
	"", "a", "svc-1", "' OR '1'='1", "x' --", "x'; DROP", "/* c */", ")", "(", ",", "?", "??", "\\", "\\'", "'\\", "\"", "it's", "a\"b", "NULL", "null", "SELECT", "AND svc = 'z'",
	"123", "-1", "0x10", "1e3", "é世界", "tab\tnl\nend", "a,b", "a') OR ('b", "LIMIT 1", "\\\\", "'", "''", "\x00", "\\n", "%s", "a?b", "  lead", "trail  ", strings.Repeat("long", 300),
	"2024-01-01T00:00:00Z", "-1h", "now",
}

var hostileIntsC20 = []int64{0, 1, -1, 42, math.MaxInt64, math.MinInt64, 1 << 32, -(1 << 31), 7, 100}

func strTV(s string) *modelv1.TagValue {
	return &modelv1.TagValue{Value: &modelv1.TagValue_Str{Str: &modelv1.Str{Value: s}}}
}

func intTV(i int64) *modelv1.TagValue {
	return &modelv1.TagValue{Value: &modelv1.TagValue_Int{Int: &modelv1.Int{Value: i}}}
}

var nullTV = &modelv1.TagValue{Value: &modelv1.TagValue_Null{}}

// quote renders a string as a BydbQL literal. Written from the lexer rule '(?:[^'\\]|\\.)*' and the unquoting
// rules (backslash escapes as in Go): only the quote and the backslash need escaping.
func quote(s string) string {
	var sb strings.Builder
	sb.WriteByte('\'')
	for _, r := range s {
		switch r {
		case '\'':
			sb.WriteString(`\'`)
		case '\\':
			sb.WriteString(`\\`)
		default:
			sb.WriteRune(r)
		}
	}
	sb.WriteByte('\'')
	return sb.String()
}

type arg struct {
	param   *modelv1.TagValue
	literal string
	special bool // contains a lexer-significant character
}

func special(s string) bool {
	return strings.ContainsAny(s, "'\"\\?(),*-/ \t\n") || s == "" || strings.EqualFold(s, "null")
}

func genArg(r *rand.Rand, sl slot, allowNull bool) arg {
	switch sl.kind {
	case kScalar:
		if allowNull && r.Intn(8) == 0 {
			return arg{param: nullTV, literal: "NULL", special: true}
		}
		if sl.tag == "int" && r.Intn(3) != 0 {
			i := hostileIntsC20[r.Intn(len(hostileIntsC20))]
			return arg{param: intTV(i), literal: fmt.Sprint(i)}
		}
		s := hostileStrings[r.Intn(len(hostileStrings))]
		if sl.tag == "int" {
			s = fmt.Sprint(hostileIntsC20[r.Intn(len(hostileIntsC20))]) // a numeric string for an int tag
		}
		return arg{param: strTV(s), literal: quote(s), special: special(s)}
	case kList:
		switch r.Intn(4) {
		case 0: // array parameter expands in place
			if sl.tag == "int" {
				n := 1 + r.Intn(3)
				vals := make([]int64, n)
				lits := make([]string, n)
				for i := range vals {
					vals[i] = hostileIntsC20[r.Intn(len(hostileIntsC20))]
					lits[i] = fmt.Sprint(vals[i])
				}
				return arg{param: &modelv1.TagValue{Value: &modelv1.TagValue_IntArray{IntArray: &modelv1.IntArray{Value: vals}}}, literal: listLiteral(lits, sl.single), special: true}
			}
			n := 1 + r.Intn(3)
			vals := make([]string, n)
			lits := make([]string, n)
			for i := range vals {
				vals[i] = hostileStrings[r.Intn(len(hostileStrings))]
				lits[i] = quote(vals[i])
			}
			return arg{param: &modelv1.TagValue{Value: &modelv1.TagValue_StrArray{StrArray: &modelv1.StrArray{Value: vals}}}, literal: listLiteral(lits, sl.single), special: true}
		default:
			if sl.tag == "int" {
				i := hostileIntsC20[r.Intn(len(hostileIntsC20))]
				return arg{param: intTV(i), literal: fmt.Sprint(i)}
			}
			s := hostileStrings[r.Intn(len(hostileStrings))]
			return arg{param: strTV(s), literal: quote(s), special: special(s)}
		}
	case kTime:
		ts := time.Date(2020+r.Intn(10), time.Month(1+r.Intn(12)), 1+r.Intn(28), r.Intn(24), r.Intn(60), r.Intn(60), r.Intn(1000)*1e6, time.UTC)
		if r.Intn(2) == 0 {
			return arg{param: &modelv1.TagValue{Value: &modelv1.TagValue_Timestamp{Timestamp: timestamppb.New(ts)}}, literal: quote(ts.Format(time.RFC3339Nano)), special: true}
		}
		s := ts.Format(time.RFC3339Nano)
		return arg{param: strTV(s), literal: quote(s), special: true}
	default:
		c := []int64{0, 1, 2, 10, 100, sl.max - 1, sl.max}[r.Intn(7)]
		return arg{param: intTV(c), literal: fmt.Sprint(c), special: true}
	}
}

func listLiteral(lits []string, single bool) string {
	if single && len(lits) > 1 {
		return "(" + strings.Join(lits, ", ") + ")"
	}
	return strings.Join(lits, ", ")
}

func (s stmt) render(args []arg, literal bool) string {
	var sb strings.Builder
	for i, p := range s.parts {
		sb.WriteString(p)
		if i < len(s.slots) {
			if literal {
				sb.WriteString(args[i].literal)
			} else {
				sb.WriteString("?")
			}
		}
	}
	return sb.String()
}

func params(args []arg) []*modelv1.TagValue {
	out := make([]*modelv1.TagValue, len(args))
	for i, a := range args {
		out[i] = a.param
	}
	return out
}

// normalize sorts what the API leaves unordered: `SELECT *` expands tags by iterating a map, so projection
// lists (repeated strings outside tag values, tag families by name) are sorted before any comparison.
func normalize(m proto.Message) proto.Message {
	c := proto.Clone(m)
	var walk func(pm protoreflect.Message)
	walk = func(pm protoreflect.Message) {
		if string(pm.Descriptor().FullName()) == "banyandb.model.v1.TagValue" {
			return
		}
		pm.Range(func(fd protoreflect.FieldDescriptor, v protoreflect.Value) bool {
			switch {
			case fd.IsList() && fd.Kind() == protoreflect.StringKind:
				l := v.List()
				ss := make([]string, l.Len())
				for i := range ss {
					ss[i] = l.Get(i).String()
				}
				sort.Strings(ss)
				for i, x := range ss {
					l.Set(i, protoreflect.ValueOfString(x))
				}
			case fd.IsList() && fd.Message() != nil:
				l := v.List()
				for i := 0; i < l.Len(); i++ {
					walk(l.Get(i).Message())
				}
				if string(fd.Message().FullName()) == "banyandb.model.v1.TagProjection.TagFamily" {
					ms := make([]protoreflect.Message, l.Len())
					for i := range ms {
						ms[i] = l.Get(i).Message()
					}
					sort.SliceStable(ms, func(a, b int) bool { return prototext.Format(ms[a].Interface()) < prototext.Format(ms[b].Interface()) })
					cp := make([]proto.Message, len(ms))
					for i, x := range ms {
						cp[i] = proto.Clone(x.Interface())
					}
					for i, x := range cp {
						l.Set(i, protoreflect.ValueOfMessage(x.ProtoReflect()))
					}
				}
			case fd.Message() != nil && !fd.IsMap():
				walk(v.Message())
			}
			return true
		})
	}
	walk(c.ProtoReflect())
	return c
}

// mask clears every leaf value (tag values, time range, counts) leaving clauses, operators, targets.
func mask(m proto.Message) string {
	c := normalize(m)
	var walk func(pm protoreflect.Message)
	walk = func(pm protoreflect.Message) {
		name := string(pm.Descriptor().FullName())
		if name == "banyandb.model.v1.TagValue" || name == "banyandb.model.v1.TimeRange" {
			pm.Range(func(fd protoreflect.FieldDescriptor, _ protoreflect.Value) bool { pm.Clear(fd); return true })
			return
		}
		pm.Range(func(fd protoreflect.FieldDescriptor, v protoreflect.Value) bool {
			switch {
			case fd.IsList() && fd.Message() != nil:
				for i := 0; i < v.List().Len(); i++ {
					walk(v.List().Get(i).Message())
				}
			case fd.Message() != nil && !fd.IsMap():
				walk(v.Message())
			case !fd.IsList() && (fd.Name() == "limit" || fd.Name() == "offset" || fd.Name() == "top_n" || fd.Name() == "number"):
				pm.Clear(fd) // count slots are values too
			case fd.IsList() && fd.Name() == "ids":
				pm.Clear(fd) // property ids carry the values of `id = ?` / `id IN (?)`
			}
			return true
		})
	}
	walk(c.ProtoReflect())
	return prototext.Format(c)
}

var tf = bydbql.NewTransformer(fRepo{})

func oneShot(q string, ps []*modelv1.TagValue) (proto.Message, error) {
	g, err := bydbql.ParseQuery(q)
	if err != nil {
		return nil, fmt.Errorf("parse: %w", err)
	}
	if ps != nil {
		if err := bydbql.BindParams(g, ps); err != nil {
			return nil, fmt.Errorf("bind: %w", err)
		}
	}
	res, err := tf.Transform(context.Background(), g)
	if err != nil {
		return nil, fmt.Errorf("transform: %w", err)
	}
	return normalize(res.QueryRequest), nil
}

func viaPrepared(ps *bydbql.PreparedStatement, p []*modelv1.TagValue) (proto.Message, error) {
	bq, err := ps.Bind(p)
	if err != nil {
		return nil, fmt.Errorf("bind: %w", err)
	}
	res, err := tf.TransformBound(context.Background(), bq)
	if err != nil {
		return nil, fmt.Errorf("transform: %w", err)
	}
	return normalize(res.QueryRequest), nil
}

func errClass(err error) string {
	if err == nil {
		return "ok"
	}
	return strings.SplitN(err.Error(), ":", 2)[0]
}

func TestVerifC20(t *testing.T) {
	s := verifh.S()
	forms := statements()
	n := verifh.Pick(400, 6000)
	for fi, st := range forms {
		prepared, perr := bydbql.Prepare(st.render(nil, false))
		if perr != nil {
			s.Violation("c20:prepare-failed:"+st.form, map[string]any{"stmt": st.render(nil, false), "err": perr.Error()})
			continue
		}
		if prepared.NumPlaceholders() != len(st.slots) {
			s.Violation("c20:placeholder-count:"+st.form, map[string]any{"want": len(st.slots), "got": prepared.NumPlaceholders()})
		}
		var firstMask string
		var firstArgs []arg
		var history [][]arg
		for ci := 0; ci < n; ci++ {
			r := verifh.Rand("c20/"+st.form, ci)
			args := make([]arg, len(st.slots))
			anySpecial := false
			for i, sl := range st.slots {
				args[i] = genArg(r, sl, true) // NULL is a legal parameter value everywhere a scalar is; literal NULL is its twin
				anySpecial = anySpecial || args[i].special
			}
			paramQ, litQ := st.render(args, false), st.render(args, true)
			twin, terr := oneShot(litQ, nil)
			bound, berr := oneShot(paramQ, params(args))
			prep, pperr := viaPrepared(prepared, params(args))
			s.Case(fmt.Sprintf("%d/%s", fi, litQ), anySpecial)
			s.Count("programs", 1)
			s.Count("form."+st.form, 1)
			if ci == 0 {
				s.Sample(map[string]any{"statement": paramQ, "literal_twin": clipS(litQ, 400), "twin_error": fmt.Sprint(terr)})
			}
			detail := func() map[string]any {
				return map[string]any{"statement": paramQ, "literal_twin": clipS(litQ, 600), "twin_err": fmt.Sprint(terr), "bound_err": fmt.Sprint(berr), "prepared_err": fmt.Sprint(pperr)}
			}
			switch {
			case terr != nil || berr != nil || pperr != nil:
				// all three must agree that the statement is rejected, at the same stage
				if errClass(terr) == "parse" {
					// my quoter produced something the lexer refuses: a harness limitation, not a verdict
					s.Count("twin_unparseable", 1)
					continue
				}
				if (terr == nil) != (berr == nil) || (terr == nil) != (pperr == nil) {
					s.Count("disagreements_checked", 1)
					s.Violation("c20:accept-reject-mismatch:"+st.form, detail())
				} else {
					s.Count("rejected_consistently", 1)
				}
				continue
			}
			if !proto.Equal(twin, bound) {
				s.Count("disagreements_checked", 1)
				d := detail()
				d["twin"], d["bound"] = clipS(prototext.Format(twin), 1500), clipS(prototext.Format(bound), 1500)
				s.Violation("c20:oneshot-differs-from-literal:"+st.form, d)
			}
			if !proto.Equal(twin, prep) {
				s.Count("disagreements_checked", 1)
				d := detail()
				d["twin"], d["prepared"] = clipS(prototext.Format(twin), 1500), clipS(prototext.Format(prep), 1500)
				s.Violation("c20:prepared-differs-from-literal:"+st.form, d)
			}
			// shape invariance: same statement, scalar-only vectors => identical masked request
			arrays := false
			for _, a := range args {
				switch a.param.Value.(type) {
				case *modelv1.TagValue_StrArray, *modelv1.TagValue_IntArray:
					arrays = true
				}
			}
			if !arrays {
				mk := mask(bound)
				if firstMask == "" {
					firstMask, firstArgs = mk, args
				} else if mk != firstMask {
					s.Violation("c20:shape-changed-by-parameter:"+st.form, map[string]any{"statement": paramQ, "params_a": fmt.Sprint(params(firstArgs)), "params_b": fmt.Sprint(params(args)), "shape_a": clipS(firstMask, 1200), "shape_b": clipS(mk, 1200)})
				}
			}
			if len(history) < 8 {
				history = append(history, args)
			}
		}
		rejections(s, st, prepared, history)
		reuse(s, st, prepared, history)
	}
	notParameterizable(s)
	s.Done()
}

// rejections: missing / surplus / ill-typed / out-of-range parameters are refused on both paths, and a
// following valid bind of the same prepared statement still equals its twin.
func rejections(s *verifh.Sink, st stmt, prepared *bydbql.PreparedStatement, history [][]arg) {
	if len(history) == 0 {
		return
	}
	good := history[0]
	type bad struct {
		name string
		ps   []*modelv1.TagValue
	}
	var bads []bad
	gp := params(good)
	bads = append(bads, bad{"missing", gp[:len(gp)-1]}, bad{"surplus", append(append([]*modelv1.TagValue(nil), gp...), strTV("x"))}, bad{"none", nil})
	for i, sl := range st.slots {
		mut := func(v *modelv1.TagValue) []*modelv1.TagValue {
			c := append([]*modelv1.TagValue(nil), gp...)
			c[i] = v
			return c
		}
		bads = append(bads, bad{fmt.Sprintf("nil-value@%d", i), mut(&modelv1.TagValue{})})
		bads = append(bads, bad{fmt.Sprintf("binary@%d", i), mut(&modelv1.TagValue{Value: &modelv1.TagValue_BinaryData{BinaryData: []byte("x")}})})
		switch sl.kind {
		case kCount:
			bads = append(bads, bad{fmt.Sprintf("count-str@%d", i), mut(strTV("5"))}, bad{fmt.Sprintf("count-negative@%d", i), mut(intTV(-1))},
				bad{fmt.Sprintf("count-too-big@%d", i), mut(intTV(sl.max + 1))}, bad{fmt.Sprintf("count-null@%d", i), mut(nullTV)})
		case kTime:
			bads = append(bads, bad{fmt.Sprintf("time-int@%d", i), mut(intTV(5))}, bad{fmt.Sprintf("time-array@%d", i), mut(&modelv1.TagValue{Value: &modelv1.TagValue_StrArray{StrArray: &modelv1.StrArray{Value: []string{"a"}}}})})
		case kScalar:
			bads = append(bads, bad{fmt.Sprintf("scalar-array@%d", i), mut(&modelv1.TagValue{Value: &modelv1.TagValue_StrArray{StrArray: &modelv1.StrArray{Value: []string{"a", "b"}}}})},
				bad{fmt.Sprintf("scalar-timestamp@%d", i), mut(&modelv1.TagValue{Value: &modelv1.TagValue_Timestamp{Timestamp: timestamppb.Now()}})})
		case kList:
			bads = append(bads, bad{fmt.Sprintf("list-empty-array@%d", i), mut(&modelv1.TagValue{Value: &modelv1.TagValue_StrArray{StrArray: &modelv1.StrArray{}}})})
		}
	}
	paramQ := st.render(good, false)
	twin, terr := oneShot(st.render(good, true), nil)
	for _, b := range bads {
		s.Case("reject/"+st.form+"/"+b.name, true)
		s.Count("rejection_cases", 1)
		// one-shot: the failed bind must not leave a transformable, partially bound statement behind
		g, err := bydbql.ParseQuery(paramQ)
		if err != nil {
			continue
		}
		bindErr := bydbql.BindParams(g, b.ps)
		if bindErr == nil {
			s.Violation("c20:bad-params-accepted:oneshot:"+strings.SplitN(b.name, "@", 2)[0], map[string]any{"statement": paramQ, "case": b.name, "params": fmt.Sprint(b.ps)})
		} else if res, terr2 := tf.Transform(context.Background(), g); terr2 == nil {
			s.Violation("c20:partially-bound-statement-executes:"+strings.SplitN(b.name, "@", 2)[0], map[string]any{"statement": paramQ, "case": b.name, "bind_err": bindErr.Error(), "request": clipS(prototext.Format(res.QueryRequest), 800)})
		}
		if _, err := prepared.Bind(b.ps); err == nil {
			s.Violation("c20:bad-params-accepted:prepared:"+strings.SplitN(b.name, "@", 2)[0], map[string]any{"statement": paramQ, "case": b.name, "params": fmt.Sprint(b.ps)})
		}
		// the prepared statement is still usable and still equals the twin
		if terr == nil {
			again, err := viaPrepared(prepared, gp)
			if err != nil || !proto.Equal(again, twin) {
				s.Violation("c20:prepared-damaged-by-rejected-bind:"+strings.SplitN(b.name, "@", 2)[0], map[string]any{"statement": paramQ, "case": b.name, "err": fmt.Sprint(err)})
			}
		}
	}
}

// reuse: bind A, bind B, bind A again, and concurrent binds: no value leaks between executions.
func reuse(s *verifh.Sink, st stmt, prepared *bydbql.PreparedStatement, history [][]arg) {
	type exp struct {
		ps   []*modelv1.TagValue
		twin proto.Message
	}
	var exps []exp
	for _, h := range history {
		twin, err := oneShot(st.render(h, true), nil)
		if err == nil {
			exps = append(exps, exp{params(h), twin})
		}
	}
	if len(exps) < 2 {
		return
	}
	// interleaved: all Binds first, then transforms in another order
	bqs := make([]*bydbql.BoundQuery, len(exps))
	for i, e := range exps {
		bq, err := prepared.Bind(e.ps)
		if err != nil {
			s.Violation("c20:reuse-bind-failed:"+st.form, map[string]any{"err": err.Error()})
			return
		}
		bqs[i] = bq
	}
	for k := 0; k < 2; k++ {
		for i := len(exps) - 1; i >= 0; i-- {
			res, err := tf.TransformBound(context.Background(), bqs[i])
			s.Count("reuse_executions", 1)
			if err != nil || !proto.Equal(normalize(res.QueryRequest), exps[i].twin) {
				s.Violation("c20:value-leak-between-executions:"+st.form, map[string]any{"statement": st.render(nil, false), "execution": i, "err": fmt.Sprint(err)})
				return
			}
		}
	}
	var wg sync.WaitGroup
	var mu sync.Mutex
	failed := ""
	for g := 0; g < 8; g++ {
		wg.Add(1)
		go func(g int) {
			defer wg.Done()
			for k := 0; k < 40; k++ {
				e := exps[(g+k)%len(exps)]
				got, err := viaPrepared(prepared, e.ps)
				if err != nil || !proto.Equal(got, e.twin) {
					mu.Lock()
					failed = fmt.Sprintf("goroutine %d iteration %d: err=%v", g, k, err)
					mu.Unlock()
					return
				}
			}
		}(g)
	}
	wg.Wait()
	s.Count("concurrent_reuse_executions", 8*40)
	s.Case("reuse/"+st.form, true)
	if failed != "" {
		s.Violation("c20:concurrent-reuse-diverges:"+st.form, map[string]any{"statement": st.render(nil, false), "first": failed})
	}
}

// notParameterizable: a placeholder where syntax is expected (names, operators, keywords) must be refused.
func notParameterizable(s *verifh.Sink) {
	for name, q := range map[string]string{
		"resource":   "SELECT * FROM STREAM ? IN g1",
		"group":      "SELECT * FROM STREAM sw IN ?",
		"projection": "SELECT ? FROM STREAM sw IN g1",
		"tag-name":   "SELECT * FROM STREAM sw IN g1 WHERE ? = 'a'",
		"order-by":   "SELECT * FROM STREAM sw IN g1 ORDER BY ?",
		"group-by":   "SELECT svc, SUM(v) FROM MEASURE m1 IN g1 GROUP BY ?",
		"analyzer":   "SELECT * FROM STREAM sw IN g1 WHERE msg MATCH('a', ?)",
		"direction":  "SELECT * FROM STREAM sw IN g1 ORDER BY n ?",
		"agg-func":   "SHOW TOP 3 FROM MEASURE top1 IN g1 AGGREGATE BY ?",
	} {
		s.Case("syntax-slot/"+name, true)
		s.Count("syntax_slot_cases", 1)
		if _, err := bydbql.ParseQuery(q); err == nil {
			if _, err2 := bydbql.Prepare(q); err2 == nil {
				s.Violation("c20:placeholder-accepted-in-syntax-position:"+name, map[string]any{"statement": q})
			}
		}
	}
}

func clipS(s string, n int) string {
	if len(s) > n {
		return s[:n] + "…"
	}
	return s
}
