package measure_test

// C10 (vectorized leaf) — partial aggregates of the columnar pipeline compose.
// The same rows are (a) aggregated in one place (AggModeAll) and (b) split over shards, aggregated per shard
// (AggModeMap), shipped as columnar frames — every shard's frames delivered by 1..3 replicas, interleaved —
// and reduced (ReduceRawFrames), optionally followed by the coordinator's TOP/BOTTOM-N. Both answers are
// compared with a reference computed here from the raw rows.

import (
	"context"
	"fmt"
	"math"
	"sort"
	"strings"
	"testing"

	"github.com/apache/skywalking-banyandb/pkg/query/vectorized"
	vmeasure "github.com/apache/skywalking-banyandb/pkg/query/vectorized/measure"
	"github.com/apache/skywalking-banyandb/pkg/query/vectorized/measure/frame"
	"github.com/apache/skywalking-banyandb/pkg/verifh"
)

type vrow struct {
	g1 string
	g2 int64
	iv int64
	fv float64
}

type vcase struct {
	twoKeys  bool
	float    bool
	fn       vmeasure.AggFunc
	shards   int
	replicas int
	batch    int
	rows     []vrow
	shardOf  []int
	label    string
}

var fnNames = map[vmeasure.AggFunc]string{vmeasure.AggSum: "SUM", vmeasure.AggCount: "COUNT", vmeasure.AggMin: "MIN", vmeasure.AggMax: "MAX", vmeasure.AggMean: "MEAN"}

func vschema(c *vcase) (*vectorized.BatchSchema, []int, int) {
	defs := []vectorized.ColumnDef{
		{Role: vectorized.RoleShardID, Name: "shard_id", Type: vectorized.ColumnTypeInt64},
		{Role: vectorized.RoleTag, TagFamily: "default", Name: "g1", Type: vectorized.ColumnTypeString},
	}
	keys := []int{1}
	if c.twoKeys {
		defs = append(defs, vectorized.ColumnDef{Role: vectorized.RoleTag, TagFamily: "default", Name: "g2", Type: vectorized.ColumnTypeInt64})
		keys = append(keys, 2)
	}
	ft := vectorized.ColumnTypeInt64
	if c.float {
		ft = vectorized.ColumnTypeFloat64
	}
	defs = append(defs, vectorized.ColumnDef{Role: vectorized.RoleField, Name: "v", Type: ft})
	return vectorized.NewBatchSchema(defs), keys, len(defs) - 1
}

func vkey(c *vcase, r vrow) string {
	if c.twoKeys {
		return fmt.Sprintf("%d:%s|%d", len(r.g1), r.g1, r.g2)
	}
	return fmt.Sprintf("%d:%s", len(r.g1), r.g1)
}

// run feeds rows (in chunks, so groups span input batches) to one aggregation operator.
func vrun(c *vcase, mode vmeasure.AggMode, shardID int64, rows []vrow) ([]*vectorized.RecordBatch, error) {
	s, keys, fcol := vschema(c)
	op := vmeasure.NewBatchAggregation(s, keys, []vmeasure.AggSpec{{Func: c.fn, InputCol: fcol, Output: "out"}}, mode, c.batch, vectorized.NewMemoryTracker(1<<30), 0)
	defer op.Close()
	ctx := context.Background()
	if err := op.Init(ctx); err != nil {
		return nil, err
	}
	for off := 0; off < len(rows); off += c.batch {
		chunk := rows[off:min(off+c.batch, len(rows))]
		b := vectorized.NewRecordBatch(s, len(chunk))
		for _, r := range chunk {
			b.Columns[0].(*vectorized.TypedColumn[int64]).Append(shardID)
			b.Columns[1].(*vectorized.TypedColumn[string]).Append(r.g1)
			if c.twoKeys {
				b.Columns[2].(*vectorized.TypedColumn[int64]).Append(r.g2)
			}
			if c.float {
				b.Columns[fcol].(*vectorized.TypedColumn[float64]).Append(r.fv)
			} else {
				b.Columns[fcol].(*vectorized.TypedColumn[int64]).Append(r.iv)
			}
		}
		b.Len = len(chunk)
		if err := op.Consume(ctx, b); err != nil {
			return nil, err
		}
	}
	if err := op.Finalize(ctx); err != nil {
		return nil, err
	}
	var out []*vectorized.RecordBatch
	for {
		nb, err := op.NextBatch(ctx)
		if err != nil {
			return nil, err
		}
		if nb == nil {
			return out, nil
		}
		out = append(out, nb)
	}
}

type vval struct {
	i int64
	f float64
}

// flatten reads group -> value from output batches; dup reports a group emitted twice.
func vflatten(c *vcase, batches []*vectorized.RecordBatch) (map[string]vval, bool) {
	out := map[string]vval{}
	dup := false
	for _, b := range batches {
		g1, g2, vi := -1, -1, -1
		for i, def := range b.Schema.Columns {
			switch {
			case def.Role == vectorized.RoleTag && def.Name == "g1":
				g1 = i
			case def.Role == vectorized.RoleTag && def.Name == "g2":
				g2 = i
			case def.Role == vectorized.RoleField && def.Name == "out":
				vi = i
			}
		}
		for r := 0; r < b.Len; r++ {
			row := vrow{g1: b.Columns[g1].(*vectorized.TypedColumn[string]).Data()[r]}
			if c.twoKeys {
				row.g2 = b.Columns[g2].(*vectorized.TypedColumn[int64]).Data()[r]
			}
			var v vval
			if c.float {
				v.f = b.Columns[vi].(*vectorized.TypedColumn[float64]).Data()[r]
			} else {
				v.i = b.Columns[vi].(*vectorized.TypedColumn[int64]).Data()[r]
			}
			k := vkey(c, row)
			if _, seen := out[k]; seen {
				dup = true
			}
			out[k] = v
		}
	}
	return out, dup
}

// vref: the documented definitions over the raw rows.
func vref(c *vcase) map[string]vval {
	type acc struct {
		si       int64
		sf       float64
		n        int64
		mni, mxi int64
		mnf, mxf float64
	}
	m := map[string]*acc{}
	for _, r := range c.rows {
		k := vkey(c, r)
		a := m[k]
		if a == nil {
			a = &acc{mni: math.MaxInt64, mxi: math.MinInt64, mnf: math.Inf(1), mxf: math.Inf(-1)}
			m[k] = a
		}
		a.si += r.iv
		a.sf += r.fv
		a.n++
		a.mni, a.mxi = min(a.mni, r.iv), max(a.mxi, r.iv)
		a.mnf, a.mxf = math.Min(a.mnf, r.fv), math.Max(a.mxf, r.fv)
	}
	out := map[string]vval{}
	for k, a := range m {
		var v vval
		switch c.fn {
		case vmeasure.AggSum:
			v = vval{a.si, a.sf}
		case vmeasure.AggCount:
			v = vval{a.n, float64(a.n)}
		case vmeasure.AggMin:
			v = vval{a.mni, a.mnf}
		case vmeasure.AggMax:
			v = vval{a.mxi, a.mxf}
		case vmeasure.AggMean:
			v = vval{a.si / a.n, a.sf / float64(a.n)}
		}
		out[k] = v
	}
	return out
}

func vdiff(c *vcase, got, want map[string]vval) (string, bool) {
	clamp := false
	for k, w := range want {
		g, ok := got[k]
		if !ok {
			return fmt.Sprintf("group %.80q missing", k), false
		}
		same := g.i == w.i
		if c.float {
			same = g.f == w.f || math.Abs(g.f-w.f) <= 1e-9*math.Max(1, math.Abs(w.f))
		}
		if !same {
			if c.fn == vmeasure.AggMean && ((!c.float && w.i < 1 && g.i == 1) || (c.float && w.f < 1 && g.f == 1)) {
				clamp = true
				continue
			}
			return fmt.Sprintf("group %.80q: got %v, reference %v", k, g, w), false
		}
	}
	for k := range got {
		if _, ok := want[k]; !ok {
			return fmt.Sprintf("unexpected group %.80q", k), false
		}
	}
	return "", clamp
}

func genVCase(i int) *vcase {
	r := verifh.Rand("c10vec", i)
	c := &vcase{twoKeys: r.Intn(3) == 0, float: r.Intn(4) == 0, fn: []vmeasure.AggFunc{vmeasure.AggSum, vmeasure.AggCount, vmeasure.AggMin, vmeasure.AggMax, vmeasure.AggMean}[r.Intn(5)],
		shards: 1 + r.Intn(6), replicas: 1 + r.Intn(3), batch: []int{1, 2, 3, 7, 1024}[r.Intn(5)]}
	// group key pool
	style := r.Intn(5)
	nk := 1 + r.Intn(8)
	var keys []string
	for k := 0; k < nk; k++ {
		switch style {
		case 0:
			keys = append(keys, fmt.Sprintf("k%d", k))
		case 1: // long names sharing a prefix whose length lands around the small-buffer sizes of the key encoders
			plen := []int{40, 55, 56, 57, 60, 63, 64, 65, 72, 100, 130}[r.Intn(11)]
			keys = append(keys, strings.Repeat("p", plen)+fmt.Sprintf("/%c", 'a'+k))
		case 2: // empty and near-empty names, prefixes of each other
			keys = append(keys, strings.Repeat("a", k))
		case 3: // bytes that look like length prefixes / delimiters
			keys = append(keys, string([]byte{byte(k), 0, 0xff, byte(k * 3)})+strings.Repeat("\x00", k%3))
		default:
			keys = append(keys, fmt.Sprintf("svc-%d|%s", k, strings.Repeat("x", r.Intn(90))))
		}
	}
	big := !c.float && (c.fn == vmeasure.AggMin || c.fn == vmeasure.AggMax || c.fn == vmeasure.AggCount) && r.Intn(2) == 0
	n := 1 + r.Intn(60)
	for j := 0; j < n; j++ {
		row := vrow{g1: keys[r.Intn(len(keys))], g2: int64(r.Intn(3)) - 1}
		switch {
		case big:
			row.iv = []int64{math.MaxInt64, math.MaxInt64 - 1, math.MinInt64, math.MinInt64 + 1, 1<<60 + int64(r.Intn(5)), -(1 << 60) - int64(r.Intn(5)), 0, -1, 1}[r.Intn(9)]
		case r.Intn(6) == 0:
			row.iv = []int64{0, -1, 1, 1 << 40, -(1 << 40), 1<<55 + int64(r.Intn(7)), -(1 << 55) - int64(r.Intn(7))}[r.Intn(7)]
		default:
			row.iv = int64(r.Intn(2001)) - 1000
		}
		row.fv = float64(r.Intn(4001)-2000) / 4 // sums of quarters are exact in float64
		c.rows = append(c.rows, row)
		sh := r.Intn(c.shards)
		if r.Intn(4) == 0 {
			sh = 0 // skew: leaves other shards empty more often
		}
		c.shardOf = append(c.shardOf, sh)
	}
	c.label = fmt.Sprintf("%s/float=%v/keys=%d(style %d,two=%v)/rows=%d/shards=%d/replicas=%d/batch=%d", fnNames[c.fn], c.float, nk, style, c.twoKeys, n, c.shards, c.replicas, c.batch)
	return c
}

func TestVerifC10Vec(t *testing.T) {
	s := verifh.S()
	n := verifh.Pick(30000, 400000)
	for i := 0; i < n; i++ {
		c := genVCase(i)
		r := verifh.Rand("c10vec-sched", i)
		want := vref(c)
		detail := func(extra map[string]any) map[string]any {
			extra["case"] = c.label
			extra["case_index"] = i
			return extra
		}
		typ := "int64"
		if c.float {
			typ = "float64"
		}
		report := func(where, d string, clamp bool) {
			if d != "" {
				s.Violation("c10:vec:"+where+":"+fnNames[c.fn]+":differs-from-reference", detail(map[string]any{"discrepancy": d}))
			} else if clamp {
				s.Violation("agg:"+typ+":MEAN:clamped-to-1-when-mean-below-1", detail(map[string]any{"where": where}))
			}
		}
		// (a) everything in one place
		all, err := vrun(c, vmeasure.AggModeAll, 0, c.rows)
		if err != nil {
			s.Violation("c10:vec:all:error", detail(map[string]any{"err": err.Error()}))
			continue
		}
		got, dup := vflatten(c, all)
		d, clamp := vdiff(c, got, want)
		if dup {
			d = "a group was emitted twice; " + d
		}
		report("one-place", d, clamp)
		// (b) per shard, framed, replicated, interleaved, reduced
		perShard := make([][]vrow, c.shards)
		for j, row := range c.rows {
			perShard[c.shardOf[j]] = append(perShard[c.shardOf[j]], row)
		}
		var frames [][]byte
		nonEmpty := 0
		for sid, rows := range perShard {
			if len(rows) == 0 {
				frames = append(frames, nil)
				s.Count("c10.vec.empty_partitions", 1)
				continue
			}
			nonEmpty++
			parts, merr := vrun(c, vmeasure.AggModeMap, int64(sid+1), rows)
			if merr != nil {
				s.Violation("c10:vec:map:error", detail(map[string]any{"err": merr.Error()}))
				continue
			}
			for _, pb := range parts {
				body, eerr := frame.Encode(pb)
				if eerr != nil {
					s.Violation("c10:vec:frame-encode:error", detail(map[string]any{"err": eerr.Error()}))
					continue
				}
				for rep := 0; rep < c.replicas; rep++ {
					frames = append(frames, body)
					s.Count("c10.vec.frames", 1)
				}
			}
		}
		r.Shuffle(len(frames), func(a, b int) { frames[a], frames[b] = frames[b], frames[a] })
		reduced, _, rerr := vmeasure.ReduceRawFrames(frames, map[bool][]string{false: {"g1"}, true: {"g1", "g2"}}[c.twoKeys],
			[]vmeasure.AggReduceSpec{{OutputName: "out", Func: c.fn}}, c.batch, vectorized.NewMemoryTracker(1<<30))
		if rerr != nil {
			s.Violation("c10:vec:reduce:error", detail(map[string]any{"err": rerr.Error()}))
			continue
		}
		got, dup = vflatten(c, reduced)
		d, clamp = vdiff(c, got, want)
		if dup {
			d = "a group was emitted twice; " + d
		}
		report("map-frame-reduce", d, clamp)
		// (c) coordinator TOP/BOTTOM-N over the reduced aggregates (int fields; MEAN excluded because of the clamp finding)
		if !c.float && c.fn != vmeasure.AggMean && len(reduced) > 0 {
			topN, asc := 1+r.Intn(4), r.Intn(2) == 0
			top, terr := vmeasure.ApplyTopToReduce(reduced, vmeasure.ReduceTopSpec{FieldName: "out", N: topN, Asc: asc}, c.batch)
			if terr != nil {
				s.Violation("c10:vec:top:error", detail(map[string]any{"err": terr.Error()}))
			} else {
				var ref []int64
				for _, v := range want {
					ref = append(ref, v.i)
				}
				sort.Slice(ref, func(a, b int) bool { return (ref[a] < ref[b]) == asc && ref[a] != ref[b] })
				ref = ref[:min(topN, len(ref))]
				tg, _ := vflatten(c, top)
				var gv []int64
				for _, v := range tg {
					gv = append(gv, v.i)
				}
				sort.Slice(gv, func(a, b int) bool { return (gv[a] < gv[b]) == asc && gv[a] != gv[b] })
				if fmt.Sprint(gv) != fmt.Sprint(ref) {
					s.Violation("c10:vec:top:differs-from-reference", detail(map[string]any{"n": topN, "ascending": asc, "returned": gv, "reference": ref}))
				}
				s.Count("c10.vec.top_checks", 1)
			}
		}
		s.Count("c10.vec.cases", 1)
		s.Case(c.label+fmt.Sprint(c.shardOf), nonEmpty >= 2 && len(want) >= 2)
		if i < 3 {
			s.Sample(map[string]any{"case": c.label, "groups": len(want), "non_empty_shards": nonEmpty, "frames": len(frames)})
		}
	}
	s.Done()
}
