// Verification harness (C15, unit "layout"): the vectorized operators must answer from the logical rows of a batch, whatever its
// physical layout. The same logical row sequence is fed once as dense batches and once as wider physical batches whose
// Selection names the logical rows (junk rows in between, different batch boundaries); top-N, aggregation and the wire frame
// must not be able to tell the difference.
package measure_test

import (
	"context"
	"fmt"
	"testing"

	"github.com/apache/skywalking-banyandb/pkg/query/vectorized"
	"github.com/apache/skywalking-banyandb/pkg/query/vectorized/measure/frame"
	vmeasure "github.com/apache/skywalking-banyandb/pkg/query/vectorized/measure"
	"github.com/apache/skywalking-banyandb/pkg/verifh"
)

type lrow struct {
	g     string
	gNull bool
	id    int64
	v     int64
	vNull bool
}

func (r lrow) String() string {
	g, v := fmt.Sprintf("%q", r.g), fmt.Sprint(r.v)
	if r.gNull {
		g = "NULL"
	}
	if r.vNull {
		v = "NULL"
	}
	return fmt.Sprintf("%s|%d|%s", g, r.id, v)
}

func lschema() *vectorized.BatchSchema {
	return vectorized.NewBatchSchema([]vectorized.ColumnDef{
		{Role: vectorized.RoleTag, TagFamily: "default", Name: "g", Type: vectorized.ColumnTypeString},
		{Role: vectorized.RoleTag, TagFamily: "default", Name: "id", Type: vectorized.ColumnTypeInt64},
		{Role: vectorized.RoleField, Name: "v", Type: vectorized.ColumnTypeInt64},
	})
}

func lappend(b *vectorized.RecordBatch, r lrow) {
	if r.gNull {
		b.Columns[0].AppendNull()
	} else {
		b.Columns[0].(*vectorized.TypedColumn[string]).Append(r.g)
	}
	b.Columns[1].(*vectorized.TypedColumn[int64]).Append(r.id)
	if r.vNull {
		b.Columns[2].AppendNull()
	} else {
		b.Columns[2].(*vectorized.TypedColumn[int64]).Append(r.v)
	}
	b.Len++
}

// layout cuts rows into batches of at most size logical rows; with mask, junk rows are interleaved and a Selection names the
// logical ones (ascending physical indices). allowNullV=false keeps junk rows non-null in v as well.
func layout(s *vectorized.BatchSchema, rows []lrow, size int, mask bool, seed, idx int) []*vectorized.RecordBatch {
	r := verifh.Rand(fmt.Sprint("c15layout-junk", seed), idx)
	var out []*vectorized.RecordBatch
	for off := 0; off < len(rows); {
		n := size
		if mask {
			n = 1 + r.Intn(size)
		}
		chunk := rows[off:min(off+n, len(rows))]
		off += len(chunk)
		b := vectorized.NewRecordBatch(s, 2*len(chunk)+2)
		if !mask {
			for _, row := range chunk {
				lappend(b, row)
			}
			out = append(out, b)
			continue
		}
		sel := []uint16{}
		junk := func() {
			for k := r.Intn(3); k > 0; k-- {
				lappend(b, lrow{g: "junk", gNull: r.Intn(3) == 0, id: -1 - int64(r.Intn(5)), v: int64(r.Intn(7)) - 3, vNull: r.Intn(3) == 0})
			}
		}
		junk()
		for _, row := range chunk {
			sel = append(sel, uint16(b.Len))
			lappend(b, row)
			junk()
		}
		b.Selection = sel
		out = append(out, b)
	}
	return out
}

func lread(batches []*vectorized.RecordBatch) []string {
	var out []string
	for _, b := range batches {
		idx := make([]int, 0, b.ActiveLen())
		if b.Selection == nil {
			for i := 0; i < b.Len; i++ {
				idx = append(idx, i)
			}
		} else {
			for _, i := range b.Selection {
				idx = append(idx, int(i))
			}
		}
		for _, i := range idx {
			var row lrow
			if b.Columns[0].IsNull(i) {
				row.gNull = true
			} else {
				row.g = b.Columns[0].(*vectorized.TypedColumn[string]).Data()[i]
			}
			row.id = b.Columns[1].(*vectorized.TypedColumn[int64]).Data()[i]
			if b.Columns[2].IsNull(i) {
				row.vNull = true
			} else {
				row.v = b.Columns[2].(*vectorized.TypedColumn[int64]).Data()[i]
			}
			out = append(out, row.String())
		}
	}
	return out
}

type lop interface {
	Init(context.Context) error
	Consume(context.Context, *vectorized.RecordBatch) error
	Finalize(context.Context) error
	NextBatch(context.Context) (*vectorized.RecordBatch, error)
	Close() error
}

func ldrive(op lop, in []*vectorized.RecordBatch, read func([]*vectorized.RecordBatch) []string) (out []string, err error) {
	defer func() {
		if p := recover(); p != nil {
			err = fmt.Errorf("panic: %v", p)
		}
	}()
	defer op.Close()
	ctx := context.Background()
	if err = op.Init(ctx); err != nil {
		return nil, err
	}
	for _, b := range in {
		if err = op.Consume(ctx, b); err != nil {
			return nil, err
		}
	}
	if err = op.Finalize(ctx); err != nil {
		return nil, err
	}
	for {
		nb, nerr := op.NextBatch(ctx)
		if nerr != nil {
			return nil, nerr
		}
		if nb == nil {
			return out, nil
		}
		out = append(out, read([]*vectorized.RecordBatch{nb})...)
	}
}

func TestVerifC15Layout(t *testing.T) {
	s := verifh.S()
	sch := lschema()
	n := verifh.Pick(6000, 120000)
	for i := 0; i < n; i++ {
		r := verifh.Rand("c15layout", i)
		nrows := 1 + r.Intn(24)
		domain := 1 + r.Intn(4) // few distinct values: ties at the top-N boundary
		nullsV := r.Intn(3) == 0
		rows := make([]lrow, nrows)
		for k := range rows {
			rows[k] = lrow{g: fmt.Sprint("g", r.Intn(3)), gNull: r.Intn(6) == 0, id: int64(k), v: int64(r.Intn(domain)) - 1}
			if nullsV && r.Intn(4) == 0 {
				rows[k].vNull = true
			}
		}
		size := 1 + r.Intn(8)
		dense := func() []*vectorized.RecordBatch { return layout(sch, rows, size, false, i, 0) }
		masked := func(j int) []*vectorized.RecordBatch { return layout(sch, rows, size, true, i, j) }
		var want []string
		for _, row := range rows {
			want = append(want, row.String())
		}
		label := fmt.Sprintf("rows=%d domain=%d batch=%d nullv=%v", nrows, domain, size, nullsV)
		detail := func(m map[string]any) map[string]any {
			m["case_index"], m["case"], m["logical_rows"] = i, label, want
			return m
		}
		// (1) the harness's own layouts carry the logical rows
		if got := lread(masked(1)); fmt.Sprint(got) != fmt.Sprint(want) {
			s.Violation("c15:layout:harness", detail(map[string]any{"read": got}))
			continue
		}
		// (2) wire frame: encode what the Selection names, decode, compare with the logical rows
		for j, b := range masked(2) {
			body, err := frame.Encode(b)
			if err != nil {
				s.Violation("c15:layout:frame:encode-error", detail(map[string]any{"err": err.Error()}))
				continue
			}
			back, err := frame.Decode(body)
			if err != nil {
				s.Violation("c15:layout:frame:decode-error", detail(map[string]any{"err": err.Error()}))
				continue
			}
			if sent, got := lread([]*vectorized.RecordBatch{b}), lread([]*vectorized.RecordBatch{back}); fmt.Sprint(sent) != fmt.Sprint(got) {
				s.Violation("c15:layout:frame:selected-rows-change-in-transit", detail(map[string]any{"batch": j, "sent": sent, "received": got}))
			}
			s.Count("c15.layout.frames_roundtripped", 1)
		}
		// (3) top-N (rows without nulls in the sort field): dense and masked layouts give the same ordered answer
		if !nullsV {
			topN, asc := 1+r.Intn(5), r.Intn(2) == 0
			mk := func() lop { return vmeasure.NewBatchTop(sch, 2, topN, asc, 1+r.Intn(8)) }
			a, aerr := ldrive(mk(), dense(), lread)
			b, berr := ldrive(mk(), masked(3), lread)
			if aerr != nil || berr != nil {
				s.Violation("c15:layout:top:error", detail(map[string]any{"dense": fmt.Sprint(aerr), "masked": fmt.Sprint(berr)}))
			} else if fmt.Sprint(a) != fmt.Sprint(b) {
				s.Violation("c15:layout:top:answer-depends-on-physical-layout", detail(map[string]any{"n": topN, "ascending": asc, "dense": a, "masked": b}))
			}
			s.Count("c15.layout.top_pairs", 1)
		}
		// (4) group-by aggregation: same groups and values from both layouts
		if !nullsV {
			fn := []vmeasure.AggFunc{vmeasure.AggSum, vmeasure.AggCount, vmeasure.AggMin, vmeasure.AggMax}[r.Intn(4)]
			mk := func() lop {
				return vmeasure.NewBatchAggregation(sch, []int{0}, []vmeasure.AggSpec{{Func: fn, InputCol: 2, Output: "out"}}, vmeasure.AggModeAll, 1+r.Intn(8), vectorized.NewMemoryTracker(1<<30), 0)
			}
			readAgg := func(bs []*vectorized.RecordBatch) []string {
				var out []string
				for _, b := range bs {
					gi, oi := -1, -1
					for ci, def := range b.Schema.Columns {
						if def.Name == "g" {
							gi = ci
						}
						if def.Name == "out" {
							oi = ci
						}
					}
					if gi < 0 || oi < 0 {
						return []string{"output schema lacks g/out"}
					}
					for k := 0; k < b.Len; k++ {
						g := "NULL"
						if !b.Columns[gi].IsNull(k) {
							g = b.Columns[gi].(*vectorized.TypedColumn[string]).Data()[k]
						}
						val := "?"
						switch c := b.Columns[oi].(type) {
						case *vectorized.TypedColumn[int64]:
							val = fmt.Sprint(c.Data()[k])
						case *vectorized.TypedColumn[float64]:
							val = fmt.Sprint(c.Data()[k])
						}
						out = append(out, g+"="+val)
					}
				}
				return out
			}
			a, aerr := ldrive(mk(), dense(), readAgg)
			b, berr := ldrive(mk(), masked(4), readAgg)
			am, bm := map[string]int{}, map[string]int{}
			for _, x := range a {
				am[x]++
			}
			for _, x := range b {
				bm[x]++
			}
			if aerr != nil || berr != nil {
				s.Violation("c15:layout:agg:error", detail(map[string]any{"dense": fmt.Sprint(aerr), "masked": fmt.Sprint(berr)}))
			} else if fmt.Sprint(am) != fmt.Sprint(bm) {
				s.Violation("c15:layout:agg:answer-depends-on-physical-layout", detail(map[string]any{"func": fnNames[fn], "dense": a, "masked": b}))
			}
			s.Count("c15.layout.agg_pairs", 1)
		}
		s.Case(label+fmt.Sprint(want), nrows >= 2)
		if i < 3 {
			s.Sample(map[string]any{"case": label, "rows": want})
		}
	}
	s.Done()
}
