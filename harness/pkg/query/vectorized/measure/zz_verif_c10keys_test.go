// Verification harness (C10, unit "vec-keys"): group-by over two string tags whose values are drawn from an alphabet in which
// distinct tuples concatenate to the same text ("a"+"bc" / "ab"+"c" / ""+"abc"): one group per tuple, values equal a reference,
// in one place and through map -> frame -> shuffled, replicated reduce.
package measure_test

import (
	"context"
	"fmt"
	"testing"

	"github.com/apache/skywalking-banyandb/pkg/query/vectorized"
	vmeasure "github.com/apache/skywalking-banyandb/pkg/query/vectorized/measure"
	"github.com/apache/skywalking-banyandb/pkg/query/vectorized/measure/frame"
	"github.com/apache/skywalking-banyandb/pkg/verifh"
)

type krow struct {
	g1, g2 string
	v      int64
}

var keyAlphabet = []string{"", "a", "b", "ab", "ba", "abc", "bc", "c", "a\x00", "\x00a", "a|b", "|"}

func kschema() *vectorized.BatchSchema {
	return vectorized.NewBatchSchema([]vectorized.ColumnDef{
		{Role: vectorized.RoleShardID, Name: "shard_id", Type: vectorized.ColumnTypeInt64},
		{Role: vectorized.RoleTag, TagFamily: "default", Name: "g1", Type: vectorized.ColumnTypeString},
		{Role: vectorized.RoleTag, TagFamily: "default", Name: "g2", Type: vectorized.ColumnTypeString},
		{Role: vectorized.RoleField, Name: "v", Type: vectorized.ColumnTypeInt64},
	})
}

func krun(fn vmeasure.AggFunc, mode vmeasure.AggMode, shardID int64, batch int, rows []krow) (out []*vectorized.RecordBatch, err error) {
	defer func() {
		if p := recover(); p != nil {
			err = fmt.Errorf("panic: %v", p)
		}
	}()
	s := kschema()
	op := vmeasure.NewBatchAggregation(s, []int{1, 2}, []vmeasure.AggSpec{{Func: fn, InputCol: 3, Output: "out"}}, mode, batch, vectorized.NewMemoryTracker(1<<30), 0)
	defer op.Close()
	ctx := context.Background()
	if err = op.Init(ctx); err != nil {
		return nil, err
	}
	for off := 0; off < len(rows); off += batch {
		chunk := rows[off:min(off+batch, len(rows))]
		b := vectorized.NewRecordBatch(s, len(chunk))
		for _, r := range chunk {
			b.Columns[0].(*vectorized.TypedColumn[int64]).Append(shardID)
			b.Columns[1].(*vectorized.TypedColumn[string]).Append(r.g1)
			b.Columns[2].(*vectorized.TypedColumn[string]).Append(r.g2)
			b.Columns[3].(*vectorized.TypedColumn[int64]).Append(r.v)
		}
		b.Len = len(chunk)
		if err = op.Consume(ctx, b); err != nil {
			return nil, err
		}
	}
	if err = op.Finalize(ctx); err != nil {
		return nil, err
	}
	for {
		nb, nerr := op.NextBatch(ctx)
		if nerr != nil {
			return nil, nerr
		}
		if nb == nil {
			return out, nil
		}
		out = append(out, nb)
	}
}

func kflatten(batches []*vectorized.RecordBatch) (map[string]int64, string) {
	out := map[string]int64{}
	for _, b := range batches {
		g1, g2, vi := -1, -1, -1
		for i, def := range b.Schema.Columns {
			switch {
			case def.Role == vectorized.RoleTag && def.Name == "g1":
				g1 = i
			case def.Role == vectorized.RoleTag && def.Name == "g2":
				g2 = i
			case def.Role == vectorized.RoleField && def.Name == "out":
				vi = i
			}
		}
		if g1 < 0 || g2 < 0 || vi < 0 {
			return out, "output lacks g1/g2/out"
		}
		col, ok := b.Columns[vi].(*vectorized.TypedColumn[int64])
		if !ok {
			return out, "out is not int64"
		}
		for r := 0; r < b.Len; r++ {
			k := fmt.Sprintf("%q,%q", b.Columns[g1].(*vectorized.TypedColumn[string]).Data()[r], b.Columns[g2].(*vectorized.TypedColumn[string]).Data()[r])
			if _, seen := out[k]; seen {
				return out, "group " + k + " emitted twice"
			}
			out[k] = col.Data()[r]
		}
	}
	return out, ""
}

func TestVerifC10VecKeys(t *testing.T) {
	s := verifh.S()
	n := verifh.Pick(4000, 80000)
	fns := []vmeasure.AggFunc{vmeasure.AggSum, vmeasure.AggCount, vmeasure.AggMin, vmeasure.AggMax}
	for i := 0; i < n; i++ {
		r := verifh.Rand("c10keys", i)
		fn := fns[r.Intn(len(fns))]
		nrows, batch, shards, replicas := 2+r.Intn(30), 1+r.Intn(8), 1+r.Intn(3), 1+r.Intn(2)
		rows := make([]krow, nrows)
		shardOf := make([]int, nrows)
		want := map[string]int64{}
		seen := map[string]bool{}
		for k := range rows {
			rows[k] = krow{g1: keyAlphabet[r.Intn(len(keyAlphabet))], g2: keyAlphabet[r.Intn(len(keyAlphabet))], v: int64(r.Intn(41)) - 20}
			key := fmt.Sprintf("%q,%q", rows[k].g1, rows[k].g2)
			// a series lives on one shard: the shard follows from the tuple
			h := uint32(0)
			for _, ch := range []byte(key) {
				h = h*31 + uint32(ch)
			}
			shardOf[k] = int(h % uint32(shards))
			switch {
			case fn == vmeasure.AggCount:
				want[key]++
			case !seen[key]:
				want[key] = rows[k].v
			case fn == vmeasure.AggSum:
				want[key] += rows[k].v
			case fn == vmeasure.AggMin:
				want[key] = min(want[key], rows[k].v)
			case fn == vmeasure.AggMax:
				want[key] = max(want[key], rows[k].v)
			}
			seen[key] = true
		}
		concat := map[string]int{}
		for _, row := range rows {
			concat[row.g1+row.g2]++
		}
		label := fmt.Sprintf("%s rows=%d batch=%d shards=%d replicas=%d", fnNames[fn], nrows, batch, shards, replicas)
		detail := func(m map[string]any) map[string]any {
			m["case_index"], m["case"], m["rows"] = i, label, fmt.Sprintf("%q", rows)
			return m
		}
		all, err := krun(fn, vmeasure.AggModeAll, 0, batch, rows)
		if err != nil {
			s.Violation("c10:vec:keys:error", detail(map[string]any{"err": err.Error()}))
			continue
		}
		if got, bad := kflatten(all); bad != "" || fmt.Sprint(got) != fmt.Sprint(want) {
			s.Violation("c10:vec:keys:one-place:"+fnNames[fn]+":differs-from-reference", detail(map[string]any{"returned": fmt.Sprint(got), "reference": fmt.Sprint(want), "note": bad}))
		}
		var frames [][]byte
		failed := false
		for sid := 0; sid < shards; sid++ {
			var mine []krow
			for k, row := range rows {
				if shardOf[k] == sid {
					mine = append(mine, row)
				}
			}
			if len(mine) == 0 {
				continue
			}
			parts, merr := krun(fn, vmeasure.AggModeMap, int64(sid+1), batch, mine)
			if merr != nil {
				s.Violation("c10:vec:keys:error", detail(map[string]any{"err": merr.Error()}))
				failed = true
				break
			}
			for _, pb := range parts {
				body, eerr := frame.Encode(pb)
				if eerr != nil {
					s.Violation("c10:vec:keys:error", detail(map[string]any{"err": eerr.Error()}))
					failed = true
					break
				}
				for rep := 0; rep < replicas; rep++ {
					frames = append(frames, body)
				}
			}
		}
		if failed {
			continue
		}
		r.Shuffle(len(frames), func(a, b int) { frames[a], frames[b] = frames[b], frames[a] })
		reduced, _, rerr := vmeasure.ReduceRawFrames(frames, []string{"g1", "g2"}, []vmeasure.AggReduceSpec{{OutputName: "out", Func: fn}}, batch, vectorized.NewMemoryTracker(1<<30))
		if rerr != nil {
			s.Violation("c10:vec:keys:error", detail(map[string]any{"err": rerr.Error()}))
			continue
		}
		if got, bad := kflatten(reduced); bad != "" || fmt.Sprint(got) != fmt.Sprint(want) {
			s.Violation("c10:vec:keys:map-frame-reduce:"+fnNames[fn]+":differs-from-reference", detail(map[string]any{"returned": fmt.Sprint(got), "reference": fmt.Sprint(want), "note": bad}))
		}
		s.Count("c10.vec.keys.cases", 1)
		if len(concat) < len(want) {
			s.Count("c10.vec.keys.cases_with_tuples_of_equal_concatenation", 1)
		}
		s.Case(label+fmt.Sprintf("%q", rows), len(concat) < len(want))
		if i < 3 {
			s.Sample(map[string]any{"case": label, "groups": len(want), "distinct_concatenations": len(concat)})
		}
	}
	s.Done()
}
