package aggregation_test

// C10 (leaf) — aggregate functions equal a reference and partials compose over every partition.

import (
	"fmt"
	"math"
	"math/big"
	"math/rand"
	"testing"

	"google.golang.org/protobuf/proto"

	modelv1 "github.com/apache/skywalking-banyandb/api/proto/banyandb/model/v1"
	"github.com/apache/skywalking-banyandb/pkg/query/aggregation"
	"github.com/apache/skywalking-banyandb/pkg/verifh"
)

var funcs = []modelv1.AggregationFunction{
	modelv1.AggregationFunction_AGGREGATION_FUNCTION_SUM,
	modelv1.AggregationFunction_AGGREGATION_FUNCTION_COUNT,
	modelv1.AggregationFunction_AGGREGATION_FUNCTION_MIN,
	modelv1.AggregationFunction_AGGREGATION_FUNCTION_MAX,
	modelv1.AggregationFunction_AGGREGATION_FUNCTION_MEAN,
}

func fname(f modelv1.AggregationFunction) string {
	return map[modelv1.AggregationFunction]string{funcs[0]: "SUM", funcs[1]: "COUNT", funcs[2]: "MIN", funcs[3]: "MAX", funcs[4]: "MEAN"}[f]
}

// refInt is the documented definition on int64 (two's-complement wrap for SUM, truncating division for MEAN).
func refInt(f modelv1.AggregationFunction, v []int64) int64 {
	var sum int64
	mn, mx := int64(math.MaxInt64), int64(math.MinInt64)
	for _, x := range v {
		sum += x
		mn = min(mn, x)
		mx = max(mx, x)
	}
	switch fname(f) {
	case "SUM":
		return sum
	case "COUNT":
		return int64(len(v))
	case "MIN":
		return mn
	case "MAX":
		return mx
	}
	return sum / int64(len(v))
}

// setPartitions enumerates all partitions of {0..n-1} as block index per element (restricted growth strings).
func setPartitions(n int, f func(assign []int, blocks int)) {
	a := make([]int, n)
	var rec func(i, mx int)
	rec = func(i, mx int) {
		if i == n {
			f(a, mx+1)
			return
		}
		for b := 0; b <= mx+1; b++ {
			a[i] = b
			nm := mx
			if b > mx {
				nm = b
			}
			rec(i+1, nm)
		}
	}
	if n == 0 {
		return
	}
	a[0] = 0
	rec(1, 0)
}

func composeInt(f modelv1.AggregationFunction, v []int64, assign []int, blocks int, viaWire bool) (int64, error) {
	red, err := aggregation.NewReduce[int64](f)
	if err != nil {
		return 0, err
	}
	for b := 0; b < blocks; b++ {
		m, err := aggregation.NewMap[int64](f)
		if err != nil {
			return 0, err
		}
		for i, x := range v {
			if assign[i] == b {
				m.In(x)
			}
		}
		p := m.Partial()
		if viaWire {
			fvs, err := aggregation.PartialToFieldValues(f, p)
			if err != nil {
				return 0, err
			}
			// across the wire
			for i, fv := range fvs {
				raw, _ := proto.Marshal(fv)
				var back modelv1.FieldValue
				if err := proto.Unmarshal(raw, &back); err != nil {
					return 0, err
				}
				fvs[i] = &back
			}
			p2, err := aggregation.FieldValuesToPartial[int64](f, fvs)
			if err != nil {
				return 0, err
			}
			if p2 != p {
				return 0, fmt.Errorf("partial changed on the wire: %+v -> %+v", p, p2)
			}
			p = p2
		}
		red.Combine(p)
	}
	return red.Val(), nil
}

func judgeInt(s *verifh.Sink, f modelv1.AggregationFunction, v []int64, assign []int, blocks int) {
	m, _ := aggregation.NewMap[int64](f)
	for _, x := range v {
		m.In(x)
	}
	whole := m.Val()
	ref := refInt(f, v)
	s.Case(fmt.Sprintf("int/%s/%v/%v", fname(f), v, assign), blocks >= 2)
	if whole != ref {
		key := "agg:int64:" + fname(f) + ":reference"
		if fname(f) == "MEAN" && ref < 1 && whole == 1 {
			key = "agg:int64:MEAN:clamped-to-1-when-mean-below-1"
		}
		s.Violation(key, map[string]any{"values": clip(v), "n": len(v), "got": whole, "reference": ref})
	}
	for _, wire := range []bool{false, true} {
		got, err := composeInt(f, v, assign, blocks, wire)
		if err != nil || got != whole {
			s.Violation("agg:int64:"+fname(f)+":partials-do-not-compose", map[string]any{"values": clip(v), "partition": clipI(assign), "blocks": blocks, "wire": wire, "composed": got, "whole": whole, "err": fmt.Sprint(err)})
			return
		}
	}
}

func clip(v []int64) []int64 {
	if len(v) > 12 {
		return v[:12]
	}
	return v
}

func clipI(v []int) []int {
	if len(v) > 12 {
		return v[:12]
	}
	return v
}

func exactSum(v []float64) *big.Float {
	acc := new(big.Float).SetPrec(2200)
	for _, x := range v {
		acc.Add(acc, new(big.Float).SetPrec(2200).SetFloat64(x))
	}
	return acc
}

func judgeFloat(s *verifh.Sink, f modelv1.AggregationFunction, v []float64, assign []int, blocks int) {
	m, _ := aggregation.NewMap[float64](f)
	for _, x := range v {
		m.In(x)
	}
	whole := m.Val()
	red, _ := aggregation.NewReduce[float64](f)
	for b := 0; b < blocks; b++ {
		mb, _ := aggregation.NewMap[float64](f)
		for i, x := range v {
			if assign[i] == b {
				mb.In(x)
			}
		}
		p := mb.Partial()
		fvs, _ := aggregation.PartialToFieldValues(f, p)
		p2, err := aggregation.FieldValuesToPartial[float64](f, fvs)
		if err != nil || math.Float64bits(p2.Value) != math.Float64bits(p.Value) || math.Float64bits(p2.Count) != math.Float64bits(p.Count) {
			s.Violation("agg:float64:"+fname(f)+":wire", map[string]any{"partial": fmt.Sprint(p), "back": fmt.Sprint(p2), "err": fmt.Sprint(err)})
		}
		red.Combine(p2)
	}
	composed := red.Val()
	s.Case(fmt.Sprintf("float/%s/%v/%v", fname(f), v, assign), blocks >= 2)
	var sumAbs float64
	mn, mx := math.Inf(1), math.Inf(-1)
	for _, x := range v {
		sumAbs += math.Abs(x)
		mn, mx = math.Min(mn, x), math.Max(mx, x)
	}
	n := float64(len(v))
	tol := 4 * n * 1.1102230246251565e-16 * sumAbs // any association of the additions stays within this bound
	exact, _ := exactSum(v).Float64()
	within := func(got, want, tol float64) bool { return math.Abs(got-want) <= tol }
	bad := ""
	switch fname(f) {
	case "SUM":
		if !within(whole, exact, tol) || !within(composed, exact, tol) {
			bad = "reference"
		}
	case "COUNT":
		if whole != n || composed != n {
			bad = "reference"
		}
	case "MIN":
		if whole != mn || composed != mn {
			bad = "reference"
		}
	case "MAX":
		if whole != mx || composed != mx {
			bad = "reference"
		}
	case "MEAN":
		want := exact / n
		if !within(whole, want, tol/n+math.Abs(want)*1e-15) || !within(composed, want, tol/n+math.Abs(want)*1e-15) {
			bad = "reference"
			if want < 1 && whole == 1 && composed == 1 {
				bad = "clamped-to-1-when-mean-below-1"
			}
		}
	}
	if bad != "" {
		s.Violation("agg:float64:"+fname(f)+":"+bad, map[string]any{"values": fmt.Sprint(v[:min(len(v), 10)]), "n": len(v), "whole": whole, "composed": composed, "exact_sum": exact, "min": mn, "max": mx})
	}
}

func TestVerifC10Leaf(t *testing.T) {
	s := verifh.S()
	pool := []int64{math.MinInt64, -3, -1, 0, 1, 2, math.MaxInt64}
	// exhaustive: every sequence of length 1..maxLen over the pool x every set partition x every function
	maxLen := verifh.Pick(4, 5)
	var seqs int64
	var rec func(cur []int64)
	rec = func(cur []int64) {
		if len(cur) > 0 {
			seqs++
			setPartitions(len(cur), func(assign []int, blocks int) {
				for _, f := range funcs {
					judgeInt(s, f, cur, assign, blocks)
				}
			})
		}
		if len(cur) == maxLen {
			return
		}
		for _, p := range pool {
			rec(append(cur, p))
		}
	}
	rec(nil)
	s.Count("exhaustive.int_sequences", seqs)
	// length 6: all 203 partitions for seeded sequences
	for i := 0; i < verifh.Pick(200, 3000); i++ {
		r := verifh.Rand("c10six", i)
		v := make([]int64, 6)
		for j := range v {
			v[j] = pool[r.Intn(len(pool))]
			if r.Intn(3) == 0 {
				v[j] = int64(r.Intn(2000) - 1000)
			}
		}
		setPartitions(6, func(assign []int, blocks int) {
			for _, f := range funcs {
				judgeInt(s, f, v, assign, blocks)
			}
		})
	}
	// large random multisets with random partitions (some blocks far larger than others)
	for i := 0; i < verifh.Pick(300, 5000); i++ {
		r := verifh.Rand("c10big", i)
		n := 1 + r.Intn(1<<uint(r.Intn(14)))
		blocks := 1 + r.Intn(8)
		v := make([]int64, n)
		assign := make([]int, n)
		used := map[int]int{}
		for j := range v {
			switch r.Intn(4) {
			case 0:
				v[j] = int64(r.Uint64())
			case 1:
				v[j] = pool[r.Intn(len(pool))]
			default:
				v[j] = int64(r.Intn(100000))
			}
			b := r.Intn(blocks)
			if _, ok := used[b]; !ok {
				used[b] = len(used)
			}
			assign[j] = used[b]
		}
		for _, f := range funcs {
			judgeInt(s, f, v, assign, len(used))
		}
		fv := make([]float64, min(n, 2000))
		fa := make([]int, len(fv))
		fused := map[int]int{}
		for j := range fv {
			switch r.Intn(4) {
			case 0:
				fv[j] = (r.Float64() - 0.5) * math.Pow10(r.Intn(30)-10)
			case 1:
				fv[j] = []float64{0, -0.5, 0.5, 1e-300, -1e300, 1e300, 0.1, 2.5}[r.Intn(8)]
			default:
				fv[j] = float64(r.Intn(100000)) / 100
			}
			b := r.Intn(blocks)
			if _, ok := fused[b]; !ok {
				fused[b] = len(fused)
			}
			fa[j] = fused[b]
		}
		for _, f := range funcs {
			judgeFloat(s, f, fv, fa, len(fused))
		}
	}
	s.Sample(map[string]any{"values": []int64{math.MinInt64, -1, math.MaxInt64, 2}, "partition": []int{0, 1, 0, 2}, "oracle": "Reduce(Map(block)...) == Map(all) == reference, also through PartialToFieldValues/proto/FieldValuesToPartial"})
	s.Done()
	_ = rand.Int
}
