package v1_test

// C12 — sort-key encodings preserve order and round-trip; series keys are injective and stable.

import (
	"bytes"
	"encoding/hex"
	"fmt"
	"math"
	"sort"
	"strings"
	"testing"

	"google.golang.org/protobuf/types/known/timestamppb"

	modelv1 "github.com/apache/skywalking-banyandb/api/proto/banyandb/model/v1"
	"github.com/apache/skywalking-banyandb/pkg/convert"
	"github.com/apache/skywalking-banyandb/pkg/index"
	pbv1 "github.com/apache/skywalking-banyandb/pkg/pb/v1"
	"github.com/apache/skywalking-banyandb/pkg/verifh"
)

func intPool() []int64 {
	p := []int64{math.MinInt64, math.MinInt64 + 1, math.MaxInt64, math.MaxInt64 - 1, 0, 1, -1, 2, -2}
	for sh := uint(1); sh < 63; sh++ {
		v := int64(1) << sh
		p = append(p, v-1, v, v+1, -v-1, -v, -v+1)
	}
	for _, b := range []int64{0x7c, 0x5c, 0x7c7c7c7c7c7c7c7c, 0x5c5c5c5c5c5c5c5c, 255, 256, 65535, 65536} {
		p = append(p, b, -b)
	}
	return p
}

func floatPool() []float64 {
	p := []float64{0, math.Copysign(0, -1), math.Inf(1), math.Inf(-1), math.MaxFloat64, -math.MaxFloat64,
		math.SmallestNonzeroFloat64, -math.SmallestNonzeroFloat64, 2.2250738585072014e-308, -2.2250738585072014e-308,
		2.225073858507201e-308, -2.225073858507201e-308, 1, -1, 0.1, -0.1, 1e-300, -1e-300, 1e300, -1e300, 0.5, -0.5, 1.5, -1.5}
	for e := -1074; e <= 1023; e += 37 {
		v := math.Ldexp(1, e)
		p = append(p, v, -v, math.Nextafter(v, math.Inf(1)), -math.Nextafter(v, math.Inf(1)), math.Nextafter(v, 0), -math.Nextafter(v, 0))
	}
	for _, v := range []float64{1 << 53, 1<<53 + 2, 1<<53 - 1, 1 << 63, 1 << 64, 123.456, 99.99, 3.141592653589793} {
		p = append(p, v, -v)
	}
	return p
}

func fbits(f float64) string { return fmt.Sprintf("%016x", math.Float64bits(f)) }

func checkOrder(s *verifh.Sink) {
	// signed 64-bit integers: exhaustive over all pairs of the pool, then random pairs
	ip := intPool()
	encI := make([][]byte, len(ip))
	for i, v := range ip {
		encI[i] = convert.Int64ToBytes(v)
		if got := convert.BytesToInt64(encI[i]); got != v {
			s.Violation("int64:roundtrip", map[string]any{"value": v, "got": got, "enc": hex.EncodeToString(encI[i])})
		}
	}
	cmpPairInt := func(a, b int64, ea, eb []byte) {
		c := bytes.Compare(ea, eb)
		want := 0
		if a < b {
			want = -1
		} else if a > b {
			want = 1
		}
		s.Case(fmt.Sprintf("i64/%d/%d", a, b), a != b)
		if c != want {
			s.Violation(fmt.Sprintf("int64:order:%d:%d", a, b), map[string]any{"a": a, "b": b, "enc_a": hex.EncodeToString(ea), "enc_b": hex.EncodeToString(eb), "cmp": c})
		}
	}
	for i := range ip {
		for j := range ip {
			cmpPairInt(ip[i], ip[j], encI[i], encI[j])
		}
	}
	s.Count("int64.pool_pairs", int64(len(ip)*len(ip)))
	n := verifh.Pick(200000, 5000000)
	r := verifh.Rand("c12int", 0)
	for k := 0; k < n; k++ {
		a := int64(r.Uint64()) >> uint(r.Intn(64))
		b := int64(r.Uint64()) >> uint(r.Intn(64))
		if r.Intn(4) == 0 {
			b = a + int64(r.Intn(5)-2)
		}
		ea, eb := convert.Int64ToBytes(a), convert.Int64ToBytes(b)
		cmpPairInt(a, b, ea, eb)
		if convert.BytesToInt64(ea) != a {
			s.Violation("int64:roundtrip", map[string]any{"value": a})
		}
	}
	s.Count("int64.random_pairs", int64(n))

	// int32
	for k := 0; k < n/4; k++ {
		a := int32(r.Uint32()) >> uint(r.Intn(32))
		b := int32(r.Uint32()) >> uint(r.Intn(32))
		switch k {
		case 0:
			a, b = math.MinInt32, math.MinInt32+1
		case 1:
			a, b = math.MinInt32, math.MaxInt32
		case 2:
			a, b = -1, 0
		case 3:
			a, b = math.MinInt32, 0
		}
		ea, eb := convert.Int32ToBytes(a), convert.Int32ToBytes(b)
		c := bytes.Compare(ea, eb)
		s.Case(fmt.Sprintf("i32/%d/%d", a, b), a != b)
		if (a < b && c >= 0) || (a > b && c <= 0) || (a == b && c != 0) {
			s.Violation(fmt.Sprintf("int32:order:%d:%d", a, b), map[string]any{"a": a, "b": b, "cmp": c})
		}
		if got := convert.BytesToInt32(ea); got != a {
			s.Violation(fmt.Sprintf("int32:roundtrip:%d", a), map[string]any{"value": a, "got": got})
		}
	}
	s.Count("int32.pairs", int64(n/4))

	// floats
	fp := floatPool()
	encF := make([][]byte, len(fp))
	checkFloatRT := func(v float64, e []byte) {
		got := convert.OrderedBytesToFloat64(e)
		if math.Float64bits(got) != math.Float64bits(v) {
			key := "float:roundtrip:" + fbits(v)
			if v != 0 && !math.IsNaN(v) {
				key = "float:roundtrip:finite"
			}
			s.Violation(key, map[string]any{"value": fmt.Sprintf("%g", v), "bits": fbits(v), "enc": hex.EncodeToString(e), "decoded_bits": fbits(got)})
		}
	}
	for i, v := range fp {
		encF[i] = convert.Float64ToOrderedBytes(v)
		checkFloatRT(v, encF[i])
	}
	cmpPairF := func(a, b float64, ea, eb []byte) {
		c := bytes.Compare(ea, eb)
		s.Case("f64/"+fbits(a)+"/"+fbits(b), math.Float64bits(a) != math.Float64bits(b))
		bad := (a < b && c >= 0) || (a > b && c <= 0) || (c == 0 && math.Float64bits(a) != math.Float64bits(b))
		if bad {
			key := "float:order:finite"
			if a == 0 || b == 0 {
				z, o := a, b
				if b == 0 && a != 0 {
					z, o = b, a
				}
				cls := "pos"
				if o < 0 {
					cls = "neg"
				} else if o == 0 {
					cls = "zero"
				}
				key = "float:order:" + fbits(z) + ":vs-" + cls
			}
			s.Violation(key, map[string]any{"a": fmt.Sprintf("%g", a), "b": fmt.Sprintf("%g", b), "enc_a": hex.EncodeToString(ea), "enc_b": hex.EncodeToString(eb), "cmp": c})
		}
	}
	for i := range fp {
		for j := range fp {
			cmpPairF(fp[i], fp[j], encF[i], encF[j])
		}
	}
	s.Count("float.pool_pairs", int64(len(fp)*len(fp)))
	for k := 0; k < n; k++ {
		a := math.Float64frombits(r.Uint64())
		b := math.Float64frombits(r.Uint64())
		if r.Intn(3) == 0 {
			b = math.Float64frombits(math.Float64bits(a) + uint64(r.Intn(5)) - 2)
		}
		if math.IsNaN(a) || math.IsNaN(b) {
			continue
		}
		ea, eb := convert.Float64ToOrderedBytes(a), convert.Float64ToOrderedBytes(b)
		cmpPairF(a, b, ea, eb)
		checkFloatRT(a, ea)
	}
	s.Count("float.random_pairs", int64(n))
	// NaN: must decode to a NaN and sort outside the finite range (not between two finite values)
	for _, nan := range []float64{math.NaN(), math.Float64frombits(0x7ff0000000000001), math.Float64frombits(0xfff8000000000000), math.Float64frombits(0xffffffffffffffff)} {
		e := convert.Float64ToOrderedBytes(nan)
		got := convert.OrderedBytesToFloat64(e)
		lo, hi := convert.Float64ToOrderedBytes(math.Inf(-1)), convert.Float64ToOrderedBytes(math.Inf(1))
		inside := bytes.Compare(e, lo) > 0 && bytes.Compare(e, hi) < 0
		s.Case("nan/"+fbits(nan), true)
		if !math.IsNaN(got) || inside {
			s.Violation("float:nan:"+fbits(nan), map[string]any{"enc": hex.EncodeToString(e), "decoded_bits": fbits(got), "sorts_inside_finite_range": inside})
		}
	}

	// index term values travel between nodes: round trip
	for k := 0; k < 2000; k++ {
		f := math.Float64frombits(r.Uint64())
		if k < len(fp) {
			f = fp[k]
		}
		m, _ := index.FloatTermValue{Value: f}.Marshal()
		var back index.FloatTermValue
		if err := back.Unmarshal(m); err != nil || math.Float64bits(back.Value) != math.Float64bits(f) {
			s.Violation("termvalue:float:roundtrip", map[string]any{"bits": fbits(f), "err": fmt.Sprint(err)})
		}
		b := make([]byte, r.Intn(300))
		r.Read(b)
		mb, _ := index.BytesTermValue{Value: b}.Marshal()
		var bb index.BytesTermValue
		if err := bb.Unmarshal(mb); err != nil || !bytes.Equal(bb.Value, b) {
			s.Violation("termvalue:bytes:roundtrip", map[string]any{"len": len(b), "err": fmt.Sprint(err)})
		}
		s.Case(fmt.Sprintf("term/%x", mb), len(b) > 0)
	}
}

// ---- series keys ----------------------------------------------------------------------------------------

type ev struct {
	kind string // null, str, int, bin, ts
	s    string
	i    int64
}

func (e ev) tag() *modelv1.TagValue {
	switch e.kind {
	case "null":
		return pbv1.NullTagValue
	case "str":
		return &modelv1.TagValue{Value: &modelv1.TagValue_Str{Str: &modelv1.Str{Value: e.s}}}
	case "int":
		return &modelv1.TagValue{Value: &modelv1.TagValue_Int{Int: &modelv1.Int{Value: e.i}}}
	case "bin":
		return &modelv1.TagValue{Value: &modelv1.TagValue_BinaryData{BinaryData: []byte(e.s)}}
	default:
		return &modelv1.TagValue{Value: &modelv1.TagValue_Timestamp{Timestamp: &timestamppb.Timestamp{Seconds: e.i / 1e9, Nanos: int32(e.i % 1e9)}}}
	}
}

// canon is the identity the statement assigns to a value: empty string/bytes are null; typed otherwise.
func (e ev) canon() string {
	switch e.kind {
	case "null":
		return "N"
	case "str":
		if e.s == "" {
			return "N"
		}
		return "S" + hex.EncodeToString([]byte(e.s))
	case "bin":
		if e.s == "" {
			return "N"
		}
		return "B" + hex.EncodeToString([]byte(e.s))
	case "int":
		return fmt.Sprintf("I%d", e.i)
	default:
		return fmt.Sprintf("T%d", e.i)
	}
}

func canonTag(t *modelv1.TagValue) string {
	switch v := t.Value.(type) {
	case *modelv1.TagValue_Null:
		return "N"
	case *modelv1.TagValue_Str:
		if v.Str.Value == "" {
			return "N"
		}
		return "S" + hex.EncodeToString([]byte(v.Str.Value))
	case *modelv1.TagValue_BinaryData:
		if len(v.BinaryData) == 0 {
			return "N"
		}
		return "B" + hex.EncodeToString(v.BinaryData)
	case *modelv1.TagValue_Int:
		return fmt.Sprintf("I%d", v.Int.Value)
	case *modelv1.TagValue_Timestamp:
		return fmt.Sprintf("T%d", v.Timestamp.Seconds*1e9+int64(v.Timestamp.Nanos))
	}
	return "?"
}

func smallStrings(alpha string, maxLen int) []string {
	out := []string{""}
	prev := []string{""}
	for l := 1; l <= maxLen; l++ {
		var next []string
		for _, p := range prev {
			for _, c := range alpha {
				next = append(next, p+string(c))
			}
		}
		out = append(out, next...)
		prev = next
	}
	return out
}

func checkSeries(s *verifh.Sink) {
	alpha := "|\\\x00a"
	strs := smallStrings(alpha, verifh.Pick(2, 3))
	var vals []ev
	vals = append(vals, ev{kind: "null"})
	for _, x := range strs {
		vals = append(vals, ev{kind: "str", s: x})
	}
	for _, x := range smallStrings("|\\a", 2) {
		vals = append(vals, ev{kind: "bin", s: x})
	}
	// ints whose big-endian bytes contain the delimiter / escape bytes
	for _, i := range []int64{0, 1, -1, 0x7c, 0x5c, 0x7c5c, 0x5c7c, 0x7c00000000000000, 0x5c7c5c7c5c7c5c7c, math.MinInt64, math.MaxInt64} {
		vals = append(vals, ev{kind: "int", i: i})
	}
	// ints whose stored (zig-zag, big-endian) bytes hold the delimiter / escape byte at each position
	for pos := uint(0); pos < 8; pos++ {
		for _, b := range []uint64{0x7c, 0x5c, 0x7d, 0x5d} {
			zz := b << (8 * pos)
			vals = append(vals, ev{kind: "int", i: int64(zz>>1) ^ -int64(zz&1)})
		}
	}
	vals = append(vals, ev{kind: "int", i: int64(uint64(0x7c5c7c5c7c5c7c5c) >> 1)}, ev{kind: "int", i: 190}, ev{kind: "int", i: 318})
	vals = append(vals, ev{kind: "ts", i: 0x7c * 1e9}, ev{kind: "ts", i: 1700000000123456789}, ev{kind: "ts", i: 0x5c7c})
	subjects := []string{"", "a", "|", "\\", "a|", "\\|", "a\\", "m1", "\x01", "\x01|"}

	seen := map[string]string{} // marshaled buffer -> canonical identity
	ids := map[uint64]string{}
	total, nontriv := 0, 0
	checkOne := func(subject string, tuple []ev) {
		ser := pbv1.Series{Subject: subject}
		canon := "subj=" + hex.EncodeToString([]byte(subject))
		hasSpecial := strings.ContainsAny(subject, "|\\")
		for _, e := range tuple {
			ser.EntityValues = append(ser.EntityValues, e.tag())
			canon += "," + e.canon()
			if e.kind == "null" || e.s == "" && (e.kind == "str" || e.kind == "bin") || strings.ContainsAny(e.s, "|\\") {
				hasSpecial = true
			}
		}
		if err := ser.Marshal(); err != nil {
			s.Violation("series:marshal-error", map[string]any{"canon": canon, "err": err.Error()})
			return
		}
		total++
		if hasSpecial {
			nontriv++
		}
		s.Case(canon, hasSpecial)
		buf := string(ser.Buffer)
		if prev, ok := seen[buf]; ok && prev != canon {
			s.Violation("series:collision", map[string]any{"buffer": hex.EncodeToString(ser.Buffer), "entity_a": prev, "entity_b": canon})
		}
		seen[buf] = canon
		if prev, ok := ids[uint64(ser.ID)]; ok && prev != buf {
			s.Count("series.id_hash_collisions", 1) // 64-bit hash collisions are not a violation of the encoding
		}
		ids[uint64(ser.ID)] = buf
		// same entity, fresh struct => same key and id
		ser2 := pbv1.Series{Subject: subject}
		for _, e := range tuple {
			ser2.EntityValues = append(ser2.EntityValues, e.tag())
		}
		if err := ser2.Marshal(); err != nil || !bytes.Equal(ser2.Buffer, ser.Buffer) || ser2.ID != ser.ID {
			s.Violation("series:unstable", map[string]any{"canon": canon})
		}
		// decode
		var back pbv1.Series
		if err := back.Unmarshal(append([]byte(nil), ser.Buffer...)); err != nil {
			s.Violation("series:unmarshal-error", map[string]any{"canon": canon, "buffer": hex.EncodeToString(ser.Buffer), "err": err.Error()})
			return
		}
		got := "subj=" + hex.EncodeToString([]byte(back.Subject))
		for _, t := range back.EntityValues {
			got += "," + canonTag(t)
		}
		if got != canon || back.ID != ser.ID {
			s.Violation("series:roundtrip", map[string]any{"want": canon, "got": got, "buffer": hex.EncodeToString(ser.Buffer)})
		}
	}
	// exhaustive: all tuples of length 0..2 over vals (and 3 over a reduced set) for each subject
	for _, subj := range subjects {
		checkOne(subj, nil)
		for _, a := range vals {
			checkOne(subj, []ev{a})
		}
	}
	for _, subj := range subjects[:4] {
		for _, a := range vals {
			for _, b := range vals {
				checkOne(subj, []ev{a, b})
			}
		}
	}
	var red []ev
	for _, v := range vals {
		if len(v.s) <= 1 {
			red = append(red, v)
		}
	}
	for _, subj := range subjects[:3] {
		for _, a := range red {
			for _, b := range red {
				for _, c := range red {
					checkOne(subj, []ev{a, b, c})
				}
			}
		}
	}
	// seeded random tuples: arbitrary ints/timestamps/strings (most byte values hit every payload position)
	rr := verifh.Rand("c12series", 0)
	for k := 0; k < verifh.Pick(60000, 1500000); k++ {
		n := 1 + rr.Intn(3)
		tuple := make([]ev, n)
		for j := range tuple {
			switch rr.Intn(4) {
			case 0:
				tuple[j] = ev{kind: "int", i: int64(rr.Uint64()) >> uint(rr.Intn(64))}
			case 1:
				tuple[j] = ev{kind: "int", i: int64(rr.Intn(1 << 16))}
			case 2:
				tuple[j] = ev{kind: "ts", i: rr.Int63n(4e18)}
			default:
				b := make([]byte, rr.Intn(6))
				for x := range b {
					b[x] = []byte{'|', '\\', 0, 'a', 'b', '|', '\\'}[rr.Intn(7)]
				}
				tuple[j] = ev{kind: []string{"str", "bin"}[rr.Intn(2)], s: string(b)}
			}
		}
		checkOne(subjects[rr.Intn(len(subjects))], tuple)
	}
	s.Count("series.tuples", int64(total))
	s.Count("series.tuples_with_delimiter_escape_or_null", int64(nontriv))
	s.Count("series.distinct_buffers", int64(len(seen)))
	// sanity of the oracle itself: distinct canonical identities must be at least as many as buffers' preimages
	keys := make([]string, 0, 4)
	for k, v := range seen {
		if len(keys) < 3 {
			keys = append(keys, v+" => "+hex.EncodeToString([]byte(k)))
		}
	}
	sort.Strings(keys)
	for _, k := range keys {
		s.Sample(map[string]any{"series_key": k})
	}
}

func TestVerifC12(t *testing.T) {
	s := verifh.S()
	checkOrder(s)
	checkSeries(s)
	s.Done()
}
