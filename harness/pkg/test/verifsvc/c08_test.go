package verifsvc

// C08 — criteria mean the same with or without indexes and pruning.
// The same rows are written to sibling streams/measures that differ only in index bindings; generated
// criteria trees are evaluated by brute force over the model and compared with every binding, in two part
// layouts (memory parts right after the ack, file parts after flush) and with time windows on stored edges.

import (
	"fmt"
	"os"
	"sort"
	"testing"
	"time"

	"google.golang.org/protobuf/types/known/timestamppb"

	commonv1 "github.com/apache/skywalking-banyandb/api/proto/banyandb/common/v1"
	databasev1 "github.com/apache/skywalking-banyandb/api/proto/banyandb/database/v1"
	measurev1 "github.com/apache/skywalking-banyandb/api/proto/banyandb/measure/v1"
	modelv1 "github.com/apache/skywalking-banyandb/api/proto/banyandb/model/v1"
	streamv1 "github.com/apache/skywalking-banyandb/api/proto/banyandb/stream/v1"
	"github.com/apache/skywalking-banyandb/pkg/verifh"
)

var qMeasureFields = []*databasev1.FieldSpec{fieldSpec("v", databasev1.FieldType_FIELD_TYPE_INT)}

type binding struct {
	name string
	kind string // "stream" | "measure"
	typ  databasev1.IndexRule_Type
}

var c08Bindings = []binding{
	{"st_none", "stream", databasev1.IndexRule_TYPE_UNSPECIFIED},
	{"st_inv", "stream", databasev1.IndexRule_TYPE_INVERTED},
	{"st_skip", "stream", databasev1.IndexRule_TYPE_SKIPPING},
	{"m_none", "measure", databasev1.IndexRule_TYPE_UNSPECIFIED},
	{"m_inv", "measure", databasev1.IndexRule_TYPE_INVERTED},
	{"st_mix", "stream", databasev1.IndexRule_TYPE_INVERTED},
}

// mixedRules: a binding whose tags are covered by different kinds of index (or by none), so that the two sides
// of an AND/OR are answered by different mechanisms (inverted element filter, skipping block filter, row filter).
var mixedRules = map[string]map[string]databasev1.IndexRule_Type{
	"st_mix": {"svc": databasev1.IndexRule_TYPE_INVERTED, "n": databasev1.IndexRule_TYPE_UNSPECIFIED, "dur": databasev1.IndexRule_TYPE_SKIPPING,
		"labels": databasev1.IndexRule_TYPE_SKIPPING, "codes": databasev1.IndexRule_TYPE_INVERTED},
}

// setupQueryWorld creates the sibling resources and writes the same rows into each.
func setupQueryWorld(t *testing.T, sv *srv, bindings []binding, rows []qrow) {
	must := func(err error) {
		if err != nil {
			t.Fatalf("setup: %v", err)
		}
	}
	must(sv.group("qs", commonv1.Catalog_CATALOG_STREAM, 2, commonv1.IntervalRule_UNIT_DAY, 1, 36500))
	must(sv.group("qm", commonv1.Catalog_CATALOG_MEASURE, 2, commonv1.IntervalRule_UNIT_DAY, 1, 36500))
	idxTags := []string{"svc", "n", "dur", "labels", "codes"}
	for _, b := range bindings {
		group, cat := "qs", commonv1.Catalog_CATALOG_STREAM
		if b.kind == "measure" {
			group, cat = "qm", commonv1.Catalog_CATALOG_MEASURE
			must(sv.measure(&databasev1.Measure{Metadata: &commonv1.Metadata{Name: b.name, Group: group},
				TagFamilies: []*databasev1.TagFamilySpec{{Name: "default", Tags: qTags}}, Fields: qMeasureFields, Entity: &databasev1.Entity{TagNames: []string{"id"}}}))
		} else {
			must(sv.stream(&databasev1.Stream{Metadata: &commonv1.Metadata{Name: b.name, Group: group},
				TagFamilies: []*databasev1.TagFamilySpec{{Name: "default", Tags: qTags}}, Entity: &databasev1.Entity{TagNames: []string{"id"}}}))
		}
		if b.typ != databasev1.IndexRule_TYPE_UNSPECIFIED {
			var rules []string
			for _, tg := range idxTags {
				rn := b.name + "_" + tg
				typ := b.typ
				if m, ok := mixedRules[b.name]; ok {
					typ = m[tg]
				}
				if typ == databasev1.IndexRule_TYPE_UNSPECIFIED {
					continue
				}
				must(sv.indexRule(group, rn, []string{tg}, typ))
				rules = append(rules, rn)
			}
			must(sv.bind(group, b.name+"_binding", rules, cat, b.name))
		}
	}
	time.Sleep(8 * time.Second) // index rule bindings reach the write path asynchronously; the sentinel below also probes it
	for _, b := range bindings {
		if b.kind == "measure" {
			must(sv.waitWritableMeasure("qm", b.name, func() *measurev1.DataPointValue {
				q := qrow{id: "sentinel", uid: -1, svc: "sentinel", labels: []string{"s"}, codes: []int64{-9}, ts: time.Date(2020, 1, 1, 0, 0, 0, 0, time.UTC)}
				return &measurev1.DataPointValue{Timestamp: timestamppb.New(q.ts), TagFamilies: []*modelv1.TagFamilyForWrite{{Tags: q.writeTags()}}, Fields: []*modelv1.FieldValue{fInt(0)}}
			}))
		} else {
			must(sv.waitWritableStream("qs", b.name, func() *streamv1.ElementValue {
				q := qrow{id: "sentinel", uid: -1, svc: "sentinel", labels: []string{"s"}, codes: []int64{-9}, ts: time.Date(2020, 1, 1, 0, 0, 0, 0, time.UTC)}
				return &streamv1.ElementValue{ElementId: "sentinel", Timestamp: timestamppb.New(q.ts), TagFamilies: []*modelv1.TagFamilyForWrite{{Tags: q.writeTags()}}}
			}))
		}
	}
	writeRows(t, sv, bindings, rows)
}

// seriesConstant rewrites the indexed tags so that they are attributes of the series (a function of the entity):
// a measure's inverted index is kept per series, not per data point, so only such tags have a defined
// meaning under it. Streams keep per-row values.
// The constants of a series are fixed by the first row ever generated for it and kept for the whole run, so that
// later waves of rows carry the same values (the index keeps one document per series).
var seriesFirst = map[string]qrow{}

func seriesConstant(rows []qrow) []qrow {
	out := make([]qrow, len(rows))
	first := seriesFirst
	for i, q := range rows {
		f, ok := first[q.id]
		if !ok {
			f = q
			first[q.id] = q
		}
		q.svc, q.svcNil, q.n, q.nNil, q.dur, q.labels, q.codes = f.svc, false, f.n, false, f.dur, f.labels, f.codes
		out[i] = q
	}
	return out
}

func writeRows(t *testing.T, sv *srv, bindings []binding, rows []qrow) {
	for _, b := range bindings {
		rows := rows
		if b.kind == "measure" {
			rows = seriesConstant(rows)
		}
		for off := 0; off < len(rows); off += 500 {
			chunk := rows[off:min(off+500, len(rows))]
			if b.kind == "measure" {
				pts := make([]*measurev1.DataPointValue, len(chunk))
				for i, q := range chunk {
					pts[i] = &measurev1.DataPointValue{Timestamp: timestamppb.New(q.ts), TagFamilies: []*modelv1.TagFamilyForWrite{{Tags: q.writeTags()}}, Fields: []*modelv1.FieldValue{fInt(q.v)}}
				}
				acked, err := sv.writeMeasure("qm", b.name, pts)
				if err != nil || countTrue(acked) != len(pts) {
					t.Fatalf("setup: writing %s: %v (%d/%d acked)", b.name, err, countTrue(acked), len(pts))
				}
			} else {
				els := make([]*streamv1.ElementValue, len(chunk))
				for i, q := range chunk {
					els[i] = &streamv1.ElementValue{ElementId: fmt.Sprint("e", q.uid), Timestamp: timestamppb.New(q.ts), TagFamilies: []*modelv1.TagFamilyForWrite{{Tags: q.writeTags()}}}
				}
				acked, err := sv.writeStream("qs", b.name, els)
				if err != nil || countTrue(acked) != len(els) {
					t.Fatalf("setup: writing %s: %v (%d/%d acked)", b.name, err, countTrue(acked), len(els))
				}
			}
		}
	}
}

func countTrue(a []bool) int {
	n := 0
	for _, x := range a {
		if x {
			n++
		}
	}
	return n
}

var uidProjection = &modelv1.TagProjection{TagFamilies: []*modelv1.TagProjection_TagFamily{{Name: "default", Tags: []string{"uid"}}}}

// run one criteria query against one binding and return the sorted uids.
func (sv *srv) selectUIDs(b binding, crit *modelv1.Criteria, tr *modelv1.TimeRange, limit uint32) ([]int64, error) {
	var out []int64
	if b.kind == "measure" {
		resp, err := sv.queryMeasure(&measurev1.QueryRequest{Groups: []string{"qm"}, Name: b.name, TimeRange: tr, Criteria: crit, TagProjection: uidProjection, Limit: limit})
		if err != nil {
			return nil, err
		}
		for _, dp := range resp.DataPoints {
			for _, tf := range dp.TagFamilies {
				for _, tg := range tf.Tags {
					if tg.Key == "uid" {
						out = append(out, tg.Value.GetInt().GetValue())
					}
				}
			}
		}
	} else {
		resp, err := sv.queryStream(&streamv1.QueryRequest{Groups: []string{"qs"}, Name: b.name, TimeRange: tr, Criteria: crit, Projection: uidProjection, Limit: limit})
		if err != nil {
			return nil, err
		}
		for _, e := range resp.Elements {
			for _, tf := range e.TagFamilies {
				for _, tg := range tf.Tags {
					if tg.Key == "uid" {
						out = append(out, tg.Value.GetInt().GetValue())
					}
				}
			}
		}
	}
	sort.Slice(out, func(i, j int) bool { return out[i] < out[j] })
	return out, nil
}

func TestVerifC08(t *testing.T) {
	s := verifh.S()
	sv := boot(t)
	defer sv.stop()
	var uid int64
	base := time.Date(2024, 5, 10, 0, 0, 0, 0, time.UTC)
	r0 := verifh.Rand("c08data", 0)
	nRows := verifh.Pick(500, 3000)
	if v := os.Getenv("VERIF_C08_ROWS"); v != "" { // experiment switch
		fmt.Sscan(v, &nRows)
	}
	rows := genDataset(r0, nRows, 8, 3, base, &uid, true)
	// one more series with a high-cardinality string tag: more than 256 distinct values in one block (plain instead of
	// dictionary encoding) once the small parts holding its rows have been merged
	var hcRows []qrow
	for i := 0; i < 640; i++ {
		uid++
		hcRows = append(hcRows, qrow{id: "hc0", uid: uid, svc: fmt.Sprintf("u-%03d", i), n: int64(i % 7), dur: int64(5000 + i), labels: []string{"hc"}, codes: []int64{int64(i)},
			ts: base.Add(2*time.Hour + time.Duration(i)*time.Second), v: int64(i)})
	}
	setupQueryWorld(t, sv, c08Bindings, rows)
	// written as 16 small batches, each flushed to a part of its own (the server flushes 200 ms after a write): the
	// merger then folds runs of small parts together, and a merged block of this series holds 320 distinct values
	for k := 0; k < 16; k++ {
		time.Sleep(350 * time.Millisecond)
		writeRows(t, sv, c08Bindings, hcRows[k*40:(k+1)*40])
	}
	rows = append(rows, hcRows...)
	nTrees := verifh.Pick(70, 1200)
	noted := map[string]bool{}
	sinceRenewal := map[string]int{}
	for layout := 0; layout < 2; layout++ {
		lname := []string{"memory-parts", "file-parts"}[layout]
		if layout == 1 {
			time.Sleep(1500 * time.Millisecond) // past the flush timeout: parts are on disk (and merging)
			// a second wave of rows lands in new parts, so file parts and memory parts coexist
			more := genDataset(r0, 200, 8, 3, base.Add(6*time.Hour), &uid, true)
			writeRows(t, sv, c08Bindings, more)
			rows = append(rows, more...)
		}
		for i := 0; i < nTrees+24; i++ {
			r := verifh.Rand("c08tree/"+lname, i)
			tr := genCriteria(r, r.Intn(4))
			if i >= nTrees { // probes of the high-cardinality series: values that exist exactly once
				q, q2 := hcRows[r.Intn(len(hcRows))], hcRows[r.Intn(len(hcRows))]
				eq := &tree{isLeaf: true, c: &cond{tag: "svc", op: modelv1.Condition_BINARY_OP_EQ, str: q.svc, kind: "str"}}
				switch i % 3 {
				case 0:
					tr = eq
				case 1:
					tr = &tree{isLeaf: true, c: &cond{tag: "svc", op: modelv1.Condition_BINARY_OP_IN, strs: []string{q.svc, "absent", q2.svc}, kind: "strs"}}
				default:
					tr = &tree{l: eq, r: &tree{isLeaf: true, c: &cond{tag: "dur", op: modelv1.Condition_BINARY_OP_EQ, i: q2.dur, kind: "int"}}}
				}
				s.Count("c08.high_cardinality_probes", 1)
			}
			// time window: everything, or edges that coincide with stored timestamps
			lo, hi := base.Add(-time.Hour), base.Add(5*24*time.Hour)
			if r.Intn(3) == 0 {
				a, b := rows[r.Intn(len(rows))].ts, rows[r.Intn(len(rows))].ts
				if b.Before(a) {
					a, b = b, a
				}
				lo, hi = a, b
			}
			want := uidsOf(rows, func(q qrow) bool { return !q.ts.Before(lo) && !q.ts.After(hi) && tr.eval(q) })
			all := uidsOf(rows, func(q qrow) bool { return !q.ts.Before(lo) && !q.ts.After(hi) })
			mrows := seriesConstant(rows)
			wantM := uidsOf(mrows, func(q qrow) bool { return !q.ts.Before(lo) && !q.ts.After(hi) && tr.eval(q) })
			nontrivial := len(want) > 0 && len(want) < len(all)
			used := map[string]bool{}
			tr.tags(used)
			s.Case(fmt.Sprintf("%s/%s/%d..%d", lname, tr.String(), lo.Unix(), hi.Unix()), nontrivial)
			if i < 2 && layout == 0 {
				s.Sample(map[string]any{"criteria": tr.String(), "matching_rows": len(want), "rows_in_window": len(all)})
			}
			for _, b := range c08Bindings {
				got, err := sv.selectUIDs(b, tr.proto(), tsRange(lo, hi), uint32(len(rows)+5000))
				if err != nil {
					s.Count("c08.unsupported."+b.name, 1)
					if !noted[b.name] {
						noted[b.name] = true
						s.Note(fmt.Sprintf("binding %s rejects e.g. %s: %s", b.name, tr.String(), clipS(err.Error(), 200)))
					}
					continue
				}
				s.Count("c08.queries."+b.name, 1)
				s.Count("programs", 1)
				want, rows := want, rows
				if b.kind == "measure" {
					want, rows = wantM, mrows
				}
				got = nonNegative(got)
				sinceRenewal[b.name]++
				if !sameIDs(got, want) && b.kind == "measure" && b.typ == databasev1.IndexRule_TYPE_INVERTED {
					// Arbitration for the recorded finding "stale recycled term reader": the series index answers from
					// the current snapshot of each segment's inverted index, and the index library keeps per-snapshot
					// reusable term readers which an earlier query can leave registered twice. A write renews the
					// snapshots; if the very same query is then answered exactly, the criteria semantics are right and the
					// wrong answer came from snapshot-local state.
					before := len(got)
					if err := sv.renewSeriesIndexSnapshots(t, b, base); err != nil {
						s.Inconclusive("c08: cannot renew the index snapshots of " + b.name + ": " + err.Error())
					} else if got2, err2 := sv.selectUIDs(b, tr.proto(), tsRange(lo, hi), uint32(len(rows)+5000)); err2 == nil && sameIDs(nonNegative(got2), want) {
						missing, extra := diffIDs(got, want)
						s.Violation("c08:"+b.name+":answer-wrong-until-the-index-snapshot-is-renewed", map[string]any{"binding": b.name, "layout": lname, "criteria": tr.String(),
							"window": lo.Format(time.RFC3339Nano) + ".." + hi.Format(time.RFC3339Nano), "expected": len(want), "returned_before_renewal": before, "returned_after_renewal": len(got2),
							"queries_on_this_snapshot_before": sinceRenewal[b.name], "missing_by_series_and_day": breakdown(rows, missing, base), "unexpected_by_series_and_day": breakdown(rows, extra, base)})
						s.Count("c08.snapshot_renewals."+b.name, 1)
						sinceRenewal[b.name] = 0
						continue
					} else {
						sinceRenewal[b.name] = 0
					}
				}
				if !sameIDs(got, want) {
					missing, extra := diffIDs(got, want)
					opKey := "tree"
					if tr.isLeaf {
						opKey = tr.c.tag + ":" + opName(tr.c.op)
					}
					s.Violation(fmt.Sprintf("c08:%s:%s:%s", b.name, lname, opKey), map[string]any{"binding": b.name, "layout": lname, "criteria": tr.String(),
						"window": lo.Format(time.RFC3339Nano) + ".." + hi.Format(time.RFC3339Nano), "expected": len(want), "returned": len(got), "missing_uids": missing, "unexpected_uids": extra,
						"missing_rows": describeRows(rows, missing), "unexpected_rows": describeRows(rows, extra), "missing_by_series_and_day": breakdown(rows, missing, base), "unexpected_by_series_and_day": breakdown(rows, extra, base)})
				}
			}
		}
	}
	// recorded finding, kept under observation: a condition on the entity tag below an OR
	lo, hi := base.Add(-time.Hour), base.Add(5*24*time.Hour)
	for i := 0; i < 12; i++ {
		r := verifh.Rand("c08entityor", i)
		tr := entityUnderOr(r)
		want := uidsOf(rows, tr.eval)
		for _, b := range c08Bindings[:3] {
			got, err := sv.selectUIDs(b, tr.proto(), tsRange(lo, hi), uint32(len(rows)+50))
			if err != nil {
				continue
			}
			s.Count("c08.entity_under_or_queries", 1)
			got = nonNegative(got)
			if !sameIDs(got, want) {
				missing, extra := diffIDs(got, want)
				s.Violation("c08:"+b.name+":entity-tag-under-or", map[string]any{"criteria": tr.String(), "expected": len(want), "returned": len(got), "missing_rows": describeRows(rows, missing), "unexpected_rows": describeRows(rows, extra)})
			}
		}
	}
	s.Done()
}

func nonNegative(ids []int64) []int64 {
	out := ids[:0:0]
	for _, id := range ids {
		if id >= 0 {
			out = append(out, id)
		}
	}
	return out
}

var renewals int

// renewSeriesIndexSnapshots writes one data point of a brand-new series into every day segment of a measure (uid < 0,
// ignored by the comparisons) and waits until it is queryable: each segment's series index then serves a new snapshot.
func (sv *srv) renewSeriesIndexSnapshots(t *testing.T, b binding, base time.Time) error {
	renewals++
	id := fmt.Sprintf("renew%05d", renewals)
	var pts []*measurev1.DataPointValue
	for d := 0; d < 3; d++ {
		q := qrow{id: id, uid: -int64(1000 + renewals*3 + d), svc: "renewal", labels: []string{"r"}, codes: []int64{-9}, ts: base.Add(time.Duration(d)*24*time.Hour + 23*time.Hour)}
		pts = append(pts, &measurev1.DataPointValue{Timestamp: timestamppb.New(q.ts), TagFamilies: []*modelv1.TagFamilyForWrite{{Tags: q.writeTags()}}, Fields: []*modelv1.FieldValue{fInt(0)}})
	}
	acked, err := sv.writeMeasure("qm", b.name, pts)
	if err != nil || countTrue(acked) != len(pts) {
		return fmt.Errorf("renewal write: %v (%d/%d acked)", err, countTrue(acked), len(pts))
	}
	probe := (&tree{isLeaf: true, c: &cond{tag: "id", op: modelv1.Condition_BINARY_OP_EQ, str: id, kind: "str"}}).proto()
	for i := 0; i < 100; i++ {
		got, err := sv.selectUIDs(b, probe, tsRange(base.Add(-time.Hour), base.Add(5*24*time.Hour)), 100)
		if err == nil && len(got) == 3 {
			return nil
		}
		time.Sleep(100 * time.Millisecond)
	}
	return fmt.Errorf("renewal rows of %s not queryable after 10 s", id)
}

// breakdown counts the given rows per series and day (helps to tell a per-segment effect from a per-row one).
func breakdown(rows []qrow, ids []int64, base time.Time) map[string]int {
	set := map[int64]bool{}
	for _, id := range ids {
		set[id] = true
	}
	out := map[string]int{}
	for _, q := range rows {
		if set[q.uid] {
			out[fmt.Sprintf("%s/day%d", q.id, int(q.ts.Sub(base).Hours())/24)]++
		}
	}
	return out
}

func describeRows(rows []qrow, ids []int64) []string {
	var out []string
	for _, id := range ids {
		if len(out) >= 6 {
			break
		}
		for _, q := range rows {
			if q.uid == id {
				out = append(out, fmt.Sprintf("uid=%d id=%s svc=%q(null=%v) n=%d(null=%v) dur=%d labels=%q codes=%v", q.uid, q.id, q.svc, q.svcNil, q.n, q.nNil, q.dur, q.labels, q.codes))
			}
		}
	}
	return out
}
