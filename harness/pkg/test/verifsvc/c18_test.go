package verifsvc

// C18 (service level) — the property store behaves like a map keyed by group/name/id.
// Seeded sequences of Apply (merge / replace), Delete and Query on a standalone server, several keys at a
// time incl. ids that are prefixes of one another and the same id under two names. After every operation the
// key is read back and compared with a map model; list queries (by name, by ids) must return exactly the
// live keys once each.

import (
	"fmt"
	"sort"
	"strings"
	"testing"

	commonv1 "github.com/apache/skywalking-banyandb/api/proto/banyandb/common/v1"
	databasev1 "github.com/apache/skywalking-banyandb/api/proto/banyandb/database/v1"
	modelv1 "github.com/apache/skywalking-banyandb/api/proto/banyandb/model/v1"
	propertyv1 "github.com/apache/skywalking-banyandb/api/proto/banyandb/property/v1"
	"github.com/apache/skywalking-banyandb/pkg/verifh"
)

type pmodel struct {
	tags   map[string]string
	create int64
	mod    int64
	live   bool
}

func TestVerifC18(t *testing.T) {
	s := verifh.S()
	sv := boot(t)
	defer sv.stop()
	const g = "pg"
	{
		ctx, cancel := ctxT()
		_, err := databasev1.NewGroupRegistryServiceClient(sv.conn).Create(ctx, &databasev1.GroupRegistryServiceCreateRequest{Group: &commonv1.Group{
			Metadata: &commonv1.Metadata{Name: g}, Catalog: commonv1.Catalog_CATALOG_PROPERTY, ResourceOpts: &commonv1.ResourceOpts{ShardNum: 2}}})
		cancel()
		if err != nil {
			t.Fatal(err)
		}
	}
	tagNames := []string{"a", "b", "c", "d"}
	var specs []*databasev1.TagSpec
	for _, n := range tagNames {
		specs = append(specs, &databasev1.TagSpec{Name: n, Type: databasev1.TagType_TAG_TYPE_STRING})
	}
	names := []string{"n1", "n2"}
	for _, n := range names {
		ctx, cancel := ctxT()
		_, err := databasev1.NewPropertyRegistryServiceClient(sv.conn).Create(ctx, &databasev1.PropertyRegistryServiceCreateRequest{Property: &databasev1.Property{Metadata: &commonv1.Metadata{Group: g, Name: n}, Tags: specs}})
		cancel()
		if err != nil {
			t.Fatal(err)
		}
	}
	pc := propertyv1.NewPropertyServiceClient(sv.conn)
	query := func(req *propertyv1.QueryRequest) ([]*propertyv1.Property, error) {
		ctx, cancel := ctxT()
		defer cancel()
		resp, err := pc.Query(ctx, req)
		if err != nil {
			return nil, err
		}
		return resp.Properties, nil
	}
	tagsOf := func(p *propertyv1.Property) map[string]string {
		m := map[string]string{}
		for _, tg := range p.Tags {
			m[tg.Key] = tg.Value.GetStr().GetValue()
		}
		return m
	}
	show := func(m map[string]string) string {
		var parts []string
		for k, v := range m {
			parts = append(parts, k+"="+v)
		}
		sort.Strings(parts)
		return strings.Join(parts, ",")
	}
	idPool := []string{"svc-1", "svc-10", "svc-100", "id1", "id10", "a", "a/b", "x y", "é", "Z"}
	model := map[string]*pmodel{}
	for c := 0; c < verifh.Pick(60, 1500); c++ {
		r := verifh.Rand("c18svc", c)
		var hist []string
		nOps := 5 + r.Intn(20)
		gen := fmt.Sprintf("c%04d-", c) // ids are fresh per case so that cases are independent
		for op := 0; op < nOps; op++ {
			name := names[r.Intn(2)]
			id := gen + idPool[r.Intn(4+r.Intn(len(idPool)-3))]
			key := name + "/" + id
			m := model[key]
			if m == nil {
				m = &pmodel{}
				model[key] = m
			}
			d := func(x map[string]any) map[string]any {
				x["case"], x["key"] = c, key
				h := hist
				if len(h) > 12 {
					h = h[len(h)-12:]
				}
				x["last_ops"] = h
				return x
			}
			switch k := r.Intn(10); {
			case k < 6: // apply
				strat := propertyv1.ApplyRequest_STRATEGY_MERGE
				if r.Intn(2) == 0 {
					strat = propertyv1.ApplyRequest_STRATEGY_REPLACE
				}
				if r.Intn(6) == 0 {
					strat = propertyv1.ApplyRequest_STRATEGY_UNSPECIFIED // documented default: merge
				}
				in := map[string]string{}
				for _, tn := range tagNames {
					if r.Intn(2) == 0 {
						in[tn] = fmt.Sprintf("%s%d.%d", tn, c, op)
					}
				}
				if len(in) == 0 {
					in["a"] = fmt.Sprintf("a%d.%d", c, op)
				}
				p := &propertyv1.Property{Metadata: &commonv1.Metadata{Group: g, Name: name}, Id: id}
				var ks []string
				for tn := range in {
					ks = append(ks, tn)
				}
				sort.Strings(ks)
				for _, tn := range ks {
					p.Tags = append(p.Tags, &modelv1.Tag{Key: tn, Value: tStr(in[tn])})
				}
				ctx, cancel := ctxT()
				resp, err := pc.Apply(ctx, &propertyv1.ApplyRequest{Property: p, Strategy: strat})
				cancel()
				hist = append(hist, fmt.Sprintf("apply(%s,%s,{%s})", key, strat.String()[9:], show(in)))
				if err != nil {
					s.Violation("c18:svc:apply-fails", d(map[string]any{"err": err.Error()}))
					continue
				}
				want := in
				if strat != propertyv1.ApplyRequest_STRATEGY_REPLACE && m.live {
					want = map[string]string{}
					for k, v := range m.tags {
						want[k] = v
					}
					for k, v := range in {
						want[k] = v
					}
				}
				if resp.Created == m.live {
					s.Violation("c18:svc:created-flag-wrong", d(map[string]any{"created": resp.Created, "key_was_live": m.live}))
				}
				if int(resp.TagsNum) != len(want) {
					s.Violation("c18:svc:tags-num-wrong", d(map[string]any{"tags_num": resp.TagsNum, "expected": len(want)}))
				}
				wasLive := m.live
				m.tags, m.live = want, true
				got, err := query(&propertyv1.QueryRequest{Groups: []string{g}, Name: name, Ids: []string{id}, Limit: 10})
				if err != nil || len(got) != 1 {
					s.Violation("c18:svc:key-not-readable-after-apply", d(map[string]any{"err": fmt.Sprint(err), "returned": len(got)}))
					continue
				}
				if show(tagsOf(got[0])) != show(want) {
					s.Violation("c18:svc:value-differs-from-model:"+strat.String()[9:], d(map[string]any{"read": show(tagsOf(got[0])), "model": show(want)}))
				}
				md := got[0].Metadata
				if md.ModRevision <= m.mod {
					s.Violation("c18:svc:modification-revision-not-increasing", d(map[string]any{"before": m.mod, "after": md.ModRevision}))
				}
				if wasLive && md.CreateRevision != m.create {
					s.Violation("c18:svc:creation-revision-changed", d(map[string]any{"before": m.create, "after": md.CreateRevision}))
				}
				m.mod, m.create = md.ModRevision, md.CreateRevision
				s.Count("c18.svc.applies", 1)
			case k < 8: // delete
				ctx, cancel := ctxT()
				resp, err := pc.Delete(ctx, &propertyv1.DeleteRequest{Group: g, Name: name, Id: id})
				cancel()
				hist = append(hist, "delete("+key+")")
				if err != nil {
					s.Violation("c18:svc:delete-fails", d(map[string]any{"err": err.Error()}))
					continue
				}
				_ = resp // the Deleted flag answers true for absent keys too; the property does not speak about it
				m.live, m.tags = false, nil
				got, err := query(&propertyv1.QueryRequest{Groups: []string{g}, Name: name, Ids: []string{id}, Limit: 10})
				if err != nil || len(got) != 0 {
					s.Violation("c18:svc:deleted-key-still-returned", d(map[string]any{"err": fmt.Sprint(err), "returned": len(got)}))
				}
				s.Count("c18.svc.deletes", 1)
			default: // list by name: exactly the live keys of this case, once each
				got, err := query(&propertyv1.QueryRequest{Groups: []string{g}, Name: name, Limit: 100000})
				hist = append(hist, "list("+name+")")
				if err != nil {
					s.Violation("c18:svc:list-fails", d(map[string]any{"err": err.Error()}))
					continue
				}
				seen := map[string]int{}
				for _, p := range got {
					if strings.HasPrefix(p.Id, gen) {
						seen[p.Id]++
						mk := model[name+"/"+p.Id]
						if mk == nil || !mk.live {
							s.Violation("c18:svc:list-returns-deleted-or-unknown-key", d(map[string]any{"id": p.Id}))
						} else if show(tagsOf(p)) != show(mk.tags) {
							s.Violation("c18:svc:list-value-differs-from-model", d(map[string]any{"id": p.Id, "read": show(tagsOf(p)), "model": show(mk.tags)}))
						}
						if seen[p.Id] > 1 {
							s.Violation("c18:svc:list-returns-key-twice", d(map[string]any{"id": p.Id}))
						}
					}
				}
				for mk, mv := range model {
					if strings.HasPrefix(mk, name+"/"+gen) && mv.live && seen[strings.TrimPrefix(mk, name+"/")] == 0 {
						s.Violation("c18:svc:list-misses-live-key", d(map[string]any{"missing": mk}))
					}
				}
				s.Count("c18.svc.lists", 1)
			}
		}
		kinds := map[string]bool{}
		for _, h := range hist {
			kinds[strings.SplitN(h, "(", 2)[0]] = true
		}
		s.Case(fmt.Sprint(hist), len(kinds) >= 2)
		if c < 2 {
			s.Sample(map[string]any{"ops": hist})
		}
	}
	s.Done()
}
