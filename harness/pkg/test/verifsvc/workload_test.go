package verifsvc

// Shared dataset + criteria generator for the query-semantics checks (C08, C09, C10 service level, C15).

import (
	"fmt"
	"math/rand"
	"sort"
	"strings"
	"time"

	"google.golang.org/protobuf/types/known/timestamppb"

	databasev1 "github.com/apache/skywalking-banyandb/api/proto/banyandb/database/v1"
	modelv1 "github.com/apache/skywalking-banyandb/api/proto/banyandb/model/v1"
)

// qrow is one stored row of the query workload.
type qrow struct {
	id     string // entity
	svc    string
	labels []string
	codes  []int64
	uid    int64
	n      int64
	dur    int64
	v      int64 // measure field
	ts     time.Time
	svcNil bool
	nNil   bool
}

var qTags = []*databasev1.TagSpec{
	{Name: "id", Type: databasev1.TagType_TAG_TYPE_STRING},
	{Name: "uid", Type: databasev1.TagType_TAG_TYPE_INT},
	{Name: "svc", Type: databasev1.TagType_TAG_TYPE_STRING},
	{Name: "n", Type: databasev1.TagType_TAG_TYPE_INT},
	{Name: "dur", Type: databasev1.TagType_TAG_TYPE_INT},
	{Name: "labels", Type: databasev1.TagType_TAG_TYPE_STRING_ARRAY},
	{Name: "codes", Type: databasev1.TagType_TAG_TYPE_INT_ARRAY},
}

var (
	svcPool   = []string{"svc-1", "svc-10", "svc-11", "svc-2", "SVC-1", "svc-1 ", "a|b", "é"}
	labelPool = []string{"red", "green", "blue", "re", "red|green", ""}
	durPool   = []int64{-5, 0, 1, 99, 100, 101, 1 << 40, -(1 << 40), 7, 1000}
)

func (q qrow) writeTags() []*modelv1.TagValue {
	svc, n := tStr(q.svc), tInt(q.n)
	if q.svcNil {
		svc = tNull()
	}
	if q.nNil {
		n = tNull()
	}
	return []*modelv1.TagValue{tStr(q.id), tInt(q.uid), svc, n, tInt(q.dur), tStrArr(q.labels), tIntArr(q.codes)}
}

// genDataset: rows over nSeries series; timestamps spread over `days` days from base (distinct per row).
func genDataset(r *rand.Rand, n, nSeries, days int, base time.Time, uid *int64, withNulls bool) []qrow {
	rows := make([]qrow, n)
	for i := range rows {
		*uid++
		q := qrow{uid: *uid, id: fmt.Sprintf("e%02d", r.Intn(nSeries)), svc: svcPool[r.Intn(len(svcPool))], n: int64(r.Intn(20)), dur: durPool[r.Intn(len(durPool))], v: int64(r.Intn(1000)) - 100}
		if r.Intn(3) == 0 {
			q.dur = int64(r.Intn(2000)) - 1000
		}
		for k := r.Intn(4); k > 0; k-- {
			q.labels = append(q.labels, labelPool[r.Intn(len(labelPool))])
		}
		for k := r.Intn(4); k > 0; k-- {
			q.codes = append(q.codes, int64(r.Intn(6))*100)
		}
		if q.labels == nil {
			q.labels = []string{"none"}
		}
		if q.codes == nil {
			q.codes = []int64{-1}
		}
		if withNulls && r.Intn(10) == 0 {
			q.svcNil = true
		}
		if withNulls && r.Intn(10) == 0 {
			q.nNil = true
		}
		// distinct, millisecond-precise timestamps spread over the days
		q.ts = base.Add(time.Duration(r.Intn(days))*24*time.Hour + time.Duration(i)*time.Second + time.Duration(r.Intn(1000))*time.Millisecond)
		rows[i] = q
	}
	return rows
}

// ---- criteria trees -------------------------------------------------------------------------------------

type cond struct {
	tag  string
	op   modelv1.Condition_BinaryOp
	str  string
	strs []string
	ints []int64
	i    int64
	kind string // "str","int","strs","ints"
}

type tree struct {
	c      *cond
	l, r   *tree
	isAnd  bool
	isLeaf bool
}

func (t *tree) String() string {
	if t.isLeaf {
		c := t.c
		switch c.kind {
		case "str":
			return fmt.Sprintf("%s %s %q", c.tag, opName(c.op), c.str)
		case "int":
			return fmt.Sprintf("%s %s %d", c.tag, opName(c.op), c.i)
		case "strs":
			return fmt.Sprintf("%s %s %q", c.tag, opName(c.op), c.strs)
		}
		return fmt.Sprintf("%s %s %v", c.tag, opName(c.op), c.ints)
	}
	op := "OR"
	if t.isAnd {
		op = "AND"
	}
	return "(" + t.l.String() + " " + op + " " + t.r.String() + ")"
}

func opName(op modelv1.Condition_BinaryOp) string {
	return strings.TrimPrefix(op.String(), "BINARY_OP_")
}

func (t *tree) proto() *modelv1.Criteria {
	if t.isLeaf {
		c := t.c
		var v *modelv1.TagValue
		switch c.kind {
		case "str":
			v = tStr(c.str)
		case "int":
			v = tInt(c.i)
		case "strs":
			v = tStrArr(c.strs)
		default:
			v = tIntArr(c.ints)
		}
		return &modelv1.Criteria{Exp: &modelv1.Criteria_Condition{Condition: &modelv1.Condition{Name: c.tag, Op: c.op, Value: v}}}
	}
	op := modelv1.LogicalExpression_LOGICAL_OP_OR
	if t.isAnd {
		op = modelv1.LogicalExpression_LOGICAL_OP_AND
	}
	return &modelv1.Criteria{Exp: &modelv1.Criteria_Le{Le: &modelv1.LogicalExpression{Op: op, Left: t.l.proto(), Right: t.r.proto()}}}
}

func containsS(a []string, x string) bool {
	for _, v := range a {
		if v == x {
			return true
		}
	}
	return false
}

func containsI(a []int64, x int64) bool {
	for _, v := range a {
		if v == x {
			return true
		}
	}
	return false
}

// eval is the brute-force predicate over the stored values. A null tag satisfies no positive comparison;
// its negations (NE / NOT_IN) are true.
func (t *tree) eval(q qrow) bool {
	if !t.isLeaf {
		if t.isAnd {
			return t.l.eval(q) && t.r.eval(q)
		}
		return t.l.eval(q) || t.r.eval(q)
	}
	c := t.c
	E := modelv1.Condition_BINARY_OP_EQ
	switch c.tag {
	case "svc", "id":
		val, null := q.svc, q.svcNil
		if c.tag == "id" {
			val, null = q.id, false
		}
		switch c.op {
		case E:
			return !null && val == c.str
		case modelv1.Condition_BINARY_OP_NE:
			return null || val != c.str
		case modelv1.Condition_BINARY_OP_IN:
			return !null && containsS(c.strs, val)
		case modelv1.Condition_BINARY_OP_NOT_IN:
			return null || !containsS(c.strs, val)
		}
	case "n", "dur":
		val, null := q.n, q.nNil
		if c.tag == "dur" {
			val, null = q.dur, false
		}
		switch c.op {
		case E:
			return !null && val == c.i
		case modelv1.Condition_BINARY_OP_NE:
			return null || val != c.i
		case modelv1.Condition_BINARY_OP_LT:
			return !null && val < c.i
		case modelv1.Condition_BINARY_OP_LE:
			return !null && val <= c.i
		case modelv1.Condition_BINARY_OP_GT:
			return !null && val > c.i
		case modelv1.Condition_BINARY_OP_GE:
			return !null && val >= c.i
		case modelv1.Condition_BINARY_OP_IN:
			return !null && containsI(c.ints, val)
		case modelv1.Condition_BINARY_OP_NOT_IN:
			return null || !containsI(c.ints, val)
		}
	case "labels":
		all := true
		for _, x := range c.strs {
			all = all && containsS(q.labels, x)
		}
		if c.op == modelv1.Condition_BINARY_OP_HAVING {
			return all
		}
		return !all
	case "codes":
		all := true
		for _, x := range c.ints {
			all = all && containsI(q.codes, x)
		}
		if c.op == modelv1.Condition_BINARY_OP_HAVING {
			return all
		}
		return !all
	}
	return false
}

func (t *tree) tags(out map[string]bool) {
	if t.isLeaf {
		out[t.c.tag] = true
		return
	}
	t.l.tags(out)
	t.r.tags(out)
}

func genLeaf(r *rand.Rand, allowNullableTags bool) *tree {
	B := func(op modelv1.Condition_BinaryOp) modelv1.Condition_BinaryOp { return op }
	tagsPool := []string{"svc", "n", "dur", "labels", "codes", "dur"}
	if allowNullableTags { // here: "entity tag allowed"
		tagsPool = append(tagsPool, "id")
	}
	tag := tagsPool[r.Intn(len(tagsPool))]
	c := &cond{tag: tag}
	switch tag {
	case "svc":
		switch r.Intn(4) {
		case 0:
			c.op, c.kind, c.str = B(modelv1.Condition_BINARY_OP_EQ), "str", svcPool[r.Intn(len(svcPool))]
		case 1:
			c.op, c.kind, c.str = B(modelv1.Condition_BINARY_OP_NE), "str", svcPool[r.Intn(len(svcPool))]
		case 2:
			c.op, c.kind, c.strs = B(modelv1.Condition_BINARY_OP_IN), "strs", []string{svcPool[r.Intn(len(svcPool))], svcPool[r.Intn(len(svcPool))], "absent"}
		default:
			c.op, c.kind, c.strs = B(modelv1.Condition_BINARY_OP_NOT_IN), "strs", []string{svcPool[r.Intn(len(svcPool))], svcPool[r.Intn(len(svcPool))]}
		}
	case "id":
		if r.Intn(2) == 0 {
			c.op, c.kind, c.str = B(modelv1.Condition_BINARY_OP_EQ), "str", fmt.Sprintf("e%02d", r.Intn(8))
		} else {
			c.op, c.kind, c.strs = B(modelv1.Condition_BINARY_OP_IN), "strs", []string{fmt.Sprintf("e%02d", r.Intn(8)), fmt.Sprintf("e%02d", r.Intn(8))}
		}
	case "n", "dur":
		pool := []int64{0, 1, 5, 10, 19, 20, -1}
		if tag == "dur" {
			pool = append(append([]int64(nil), durPool...), 500, -500, 98, 102)
		}
		ops := []modelv1.Condition_BinaryOp{modelv1.Condition_BINARY_OP_EQ, modelv1.Condition_BINARY_OP_NE, modelv1.Condition_BINARY_OP_LT, modelv1.Condition_BINARY_OP_LE,
			modelv1.Condition_BINARY_OP_GT, modelv1.Condition_BINARY_OP_GE, modelv1.Condition_BINARY_OP_IN, modelv1.Condition_BINARY_OP_NOT_IN}
		c.op = ops[r.Intn(len(ops))]
		if c.op == modelv1.Condition_BINARY_OP_IN || c.op == modelv1.Condition_BINARY_OP_NOT_IN {
			c.kind, c.ints = "ints", []int64{pool[r.Intn(len(pool))], pool[r.Intn(len(pool))]}
		} else {
			c.kind, c.i = "int", pool[r.Intn(len(pool))]
		}
	case "labels":
		c.op, c.kind = modelv1.Condition_BINARY_OP_HAVING, "strs"
		if r.Intn(3) == 0 {
			c.op = modelv1.Condition_BINARY_OP_NOT_HAVING
		}
		c.strs = []string{labelPool[r.Intn(len(labelPool))]}
		if r.Intn(2) == 0 {
			c.strs = append(c.strs, labelPool[r.Intn(len(labelPool))])
		}
	case "codes":
		c.op, c.kind = modelv1.Condition_BINARY_OP_HAVING, "ints"
		if r.Intn(3) == 0 {
			c.op = modelv1.Condition_BINARY_OP_NOT_HAVING
		}
		c.ints = []int64{int64(r.Intn(6)) * 100}
		if r.Intn(2) == 0 {
			c.ints = append(c.ints, int64(r.Intn(6))*100)
		}
	}
	return &tree{isLeaf: true, c: c}
}

// genTree builds an AND/OR tree over the non-entity tags. The entity tag only ever appears as a top-level
// conjunct (see genCriteria): under OR the engine consumes entity conditions for series selection, which is a
// recorded finding exercised separately (entityUnderOr).
func genTree(r *rand.Rand, depth int) *tree {
	if depth == 0 || r.Intn(3) == 0 {
		return genLeaf(r, false)
	}
	return &tree{isAnd: r.Intn(2) == 0, l: genTree(r, depth-1), r: genTree(r, depth-1)}
}

func genCriteria(r *rand.Rand, depth int) *tree {
	t := genTree(r, depth)
	if r.Intn(3) == 0 {
		idLeaf := genLeaf(r, true)
		for idLeaf.c.tag != "id" {
			idLeaf = genLeaf(r, true)
		}
		return &tree{isAnd: true, l: idLeaf, r: t}
	}
	return t
}

func entityUnderOr(r *rand.Rand) *tree {
	idLeaf := genLeaf(r, true)
	for idLeaf.c.tag != "id" {
		idLeaf = genLeaf(r, true)
	}
	return &tree{isAnd: false, l: idLeaf, r: genLeaf(r, false)}
}

func uidsOf(rows []qrow, pred func(qrow) bool) []int64 {
	var out []int64
	for _, q := range rows {
		if pred(q) {
			out = append(out, q.uid)
		}
	}
	sort.Slice(out, func(i, j int) bool { return out[i] < out[j] })
	return out
}

func sameIDs(a, b []int64) bool {
	if len(a) != len(b) {
		return false
	}
	for i := range a {
		if a[i] != b[i] {
			return false
		}
	}
	return true
}

func diffIDs(got, want []int64) (missing, extra []int64) {
	g, w := map[int64]bool{}, map[int64]bool{}
	for _, x := range got {
		g[x] = true
	}
	for _, x := range want {
		w[x] = true
		if !g[x] && len(missing) < 5 {
			missing = append(missing, x)
		}
	}
	for _, x := range got {
		if !w[x] && len(extra) < 5 {
			extra = append(extra, x)
		}
	}
	return
}

func tsRange(lo, hi time.Time) *modelv1.TimeRange {
	return &modelv1.TimeRange{Begin: timestamppb.New(lo), End: timestamppb.New(hi)}
}
