package verifsvc

// C15 — vectorized execution returns what row execution returns (single node).
// C10 (service level) — aggregates / group-by / top-N equal a reference over the selected raw points.
// Two in-process standalone servers that differ only in the *-vectorized-enabled flags receive the same
// acknowledged history; every generated query goes to both and the responses must be equal. Counters of the
// vectorized packages prove which programs the columnar path actually handled.

import (
	"fmt"
	"math"
	"os"
	"sort"
	"strings"
	"testing"
	"time"

	"google.golang.org/protobuf/encoding/prototext"
	"google.golang.org/protobuf/proto"
	"google.golang.org/protobuf/types/known/timestamppb"

	commonv1 "github.com/apache/skywalking-banyandb/api/proto/banyandb/common/v1"
	databasev1 "github.com/apache/skywalking-banyandb/api/proto/banyandb/database/v1"
	measurev1 "github.com/apache/skywalking-banyandb/api/proto/banyandb/measure/v1"
	modelv1 "github.com/apache/skywalking-banyandb/api/proto/banyandb/model/v1"
	streamv1 "github.com/apache/skywalking-banyandb/api/proto/banyandb/stream/v1"
	vmplan "github.com/apache/skywalking-banyandb/pkg/query/vectorized/measure/plan"
	vstream "github.com/apache/skywalking-banyandb/pkg/query/vectorized/stream"
	"github.com/apache/skywalking-banyandb/pkg/verifh"
)

type aggRow struct {
	id, svc, region string
	uid, v          int64
	fl              float64
	ts              time.Time
	vNull, svcNull  bool
}

var aggTags = []*databasev1.TagSpec{
	{Name: "id", Type: databasev1.TagType_TAG_TYPE_STRING},
	{Name: "uid", Type: databasev1.TagType_TAG_TYPE_INT},
	{Name: "svc", Type: databasev1.TagType_TAG_TYPE_STRING},
	{Name: "region", Type: databasev1.TagType_TAG_TYPE_STRING},
}

var aggFields = []*databasev1.FieldSpec{fieldSpec("v", databasev1.FieldType_FIELD_TYPE_INT), fieldSpec("fl", databasev1.FieldType_FIELD_TYPE_FLOAT)}

func setupAggWorld(t *testing.T, sv *srv, rows []aggRow) { setupAggWorldNamed(t, sv, rows, "ma", true) }

func setupAggWorldNamed(t *testing.T, sv *srv, rows []aggRow, name string, createGroup bool) {
	must := func(err error) {
		if err != nil {
			t.Fatalf("setup: %v", err)
		}
	}
	if createGroup {
		must(sv.group("ga", commonv1.Catalog_CATALOG_MEASURE, 2, commonv1.IntervalRule_UNIT_DAY, 1, 36500))
	}
	must(sv.measure(&databasev1.Measure{Metadata: &commonv1.Metadata{Name: name, Group: "ga"},
		TagFamilies: []*databasev1.TagFamilySpec{{Name: "default", Tags: aggTags}}, Fields: aggFields, Entity: &databasev1.Entity{TagNames: []string{"id"}}}))
	must(sv.waitWritableMeasure("ga", name, func() *measurev1.DataPointValue {
		return &measurev1.DataPointValue{Timestamp: timestamppb.New(time.Date(2020, 1, 1, 0, 0, 0, 0, time.UTC)),
			TagFamilies: []*modelv1.TagFamilyForWrite{{Tags: []*modelv1.TagValue{tStr("sentinel"), tInt(-1), tStr("s"), tStr("r")}}}, Fields: []*modelv1.FieldValue{fInt(0), fFloat(0)}}
	}))
	for off := 0; off < len(rows); off += 400 {
		chunk := rows[off:min(off+400, len(rows))]
		pts := make([]*measurev1.DataPointValue, len(chunk))
		for i, q := range chunk {
			pts[i] = &measurev1.DataPointValue{Timestamp: timestamppb.New(q.ts),
				TagFamilies: []*modelv1.TagFamilyForWrite{{Tags: []*modelv1.TagValue{tStr(q.id), tInt(q.uid), tStr(q.svc), tStr(q.region)}}}, Fields: []*modelv1.FieldValue{fInt(q.v), fFloat(q.fl)}}
			if q.svcNull {
				pts[i].TagFamilies[0].Tags[2] = tNull()
			}
			if q.vNull {
				pts[i].Fields[0] = fNull()
			}
		}
		acked, err := sv.writeMeasure("ga", name, pts)
		if err != nil || countTrue(acked) != len(pts) {
			t.Fatalf("setup: writing agg rows: %v (%d/%d)", err, countTrue(acked), len(pts))
		}
	}
}

type aggQuery struct {
	name    string
	groupBy []string
	fn      modelv1.AggregationFunction
	field   string
	top     int32
	topSort modelv1.Sort
	sel     func(aggRow) bool
	crit    *modelv1.Criteria
	desc    string
	limit   uint32
	hasAgg  bool
}

func (q aggQuery) request(lo, hi time.Time) *measurev1.QueryRequest {
	tags := []string{"id", "uid", "svc", "region"}
	if len(q.groupBy) > 0 || q.hasAgg {
		tags = q.groupBy
		if len(tags) == 0 {
			tags = []string{"id"}
		}
	}
	nm := q.name
	if nm == "" {
		nm = "ma"
	}
	req := &measurev1.QueryRequest{Groups: []string{"ga"}, Name: nm, TimeRange: tsRange(lo, hi), Criteria: q.crit, Limit: q.limit,
		TagProjection:   &modelv1.TagProjection{TagFamilies: []*modelv1.TagProjection_TagFamily{{Name: "default", Tags: tags}}},
		FieldProjection: &measurev1.QueryRequest_FieldProjection{Names: []string{q.field}}}
	if len(q.groupBy) > 0 {
		req.GroupBy = &measurev1.QueryRequest_GroupBy{TagProjection: &modelv1.TagProjection{TagFamilies: []*modelv1.TagProjection_TagFamily{{Name: "default", Tags: q.groupBy}}}, FieldName: q.field}
	}
	if q.hasAgg {
		req.Agg = &measurev1.QueryRequest_Aggregation{Function: q.fn, FieldName: q.field}
	}
	if q.top > 0 {
		req.Top = &measurev1.QueryRequest_Top{Number: q.top, FieldName: q.field, FieldValueSort: q.topSort}
	}
	return req
}

func fnName(f modelv1.AggregationFunction) string {
	return strings.TrimPrefix(f.String(), "AGGREGATION_FUNCTION_")
}

func genAggQuery(r interface{ Intn(int) int }, i int) aggQuery {
	fns := []modelv1.AggregationFunction{modelv1.AggregationFunction_AGGREGATION_FUNCTION_SUM, modelv1.AggregationFunction_AGGREGATION_FUNCTION_COUNT,
		modelv1.AggregationFunction_AGGREGATION_FUNCTION_MIN, modelv1.AggregationFunction_AGGREGATION_FUNCTION_MAX, modelv1.AggregationFunction_AGGREGATION_FUNCTION_MEAN}
	q := aggQuery{field: "v", limit: 5000, sel: func(aggRow) bool { return true }}
	switch r.Intn(5) {
	case 0: // scalar aggregate over everything selected
		q.hasAgg, q.fn, q.groupBy = true, fns[r.Intn(len(fns))], []string{"id"}
		q.desc = fnName(q.fn) + "(v) group by id"
	case 1:
		q.hasAgg, q.fn, q.groupBy = true, fns[r.Intn(len(fns))], []string{"svc"}
		q.desc = fnName(q.fn) + "(v) group by svc"
	case 2:
		q.hasAgg, q.fn, q.groupBy = true, fns[r.Intn(len(fns))], []string{"svc", "region"}
		q.desc = fnName(q.fn) + "(v) group by svc,region"
	case 3: // top/bottom N of an aggregate
		q.hasAgg, q.fn, q.groupBy = true, fns[r.Intn(len(fns))], []string{"svc"}
		q.top, q.topSort = int32(1+r.Intn(4)), []modelv1.Sort{modelv1.Sort_SORT_DESC, modelv1.Sort_SORT_ASC}[r.Intn(2)]
		q.desc = fmt.Sprintf("top %d %v of %s(v) group by svc", q.top, q.topSort, fnName(q.fn))
	default: // top/bottom N raw points
		q.top, q.topSort = int32(1+r.Intn(6)), []modelv1.Sort{modelv1.Sort_SORT_DESC, modelv1.Sort_SORT_ASC}[r.Intn(2)]
		q.desc = fmt.Sprintf("top %d %v raw points by v", q.top, q.topSort)
	}
	if r.Intn(3) == 0 { // a selection on the entity tag
		ids := []string{fmt.Sprintf("a%02d", r.Intn(6)), fmt.Sprintf("a%02d", r.Intn(6))}
		q.crit = &modelv1.Criteria{Exp: &modelv1.Criteria_Condition{Condition: &modelv1.Condition{Name: "id", Op: modelv1.Condition_BINARY_OP_IN, Value: tStrArr(ids)}}}
		q.sel = func(a aggRow) bool { return a.id == ids[0] || a.id == ids[1] }
		q.desc += fmt.Sprintf(" where id in %v", ids)
	}
	return q
}

// refAgg computes group key -> aggregate over the selected rows (int field, documented definitions).
func refAgg(rows []aggRow, q aggQuery) map[string]int64 {
	type acc struct {
		sum, cnt, mn, mx int64
	}
	groups := map[string]*acc{}
	for _, a := range rows {
		if !q.sel(a) {
			continue
		}
		var ks []string
		for _, g := range q.groupBy {
			switch g {
			case "id":
				ks = append(ks, a.id)
			case "svc":
				ks = append(ks, a.svc)
			case "region":
				ks = append(ks, a.region)
			}
		}
		k := strings.Join(ks, "\x00")
		g := groups[k]
		if g == nil {
			g = &acc{mn: math.MaxInt64, mx: math.MinInt64}
			groups[k] = g
		}
		g.sum += a.v
		g.cnt++
		g.mn, g.mx = min(g.mn, a.v), max(g.mx, a.v)
	}
	out := map[string]int64{}
	for k, g := range groups {
		switch fnName(q.fn) {
		case "SUM":
			out[k] = g.sum
		case "COUNT":
			out[k] = g.cnt
		case "MIN":
			out[k] = g.mn
		case "MAX":
			out[k] = g.mx
		case "MEAN":
			out[k] = g.sum / g.cnt
		}
	}
	return out
}

func dpKeyVal(dp *measurev1.DataPoint, groupBy []string, field string) (string, int64, bool) {
	vals := map[string]string{}
	for _, tf := range dp.TagFamilies {
		for _, tg := range tf.Tags {
			vals[tg.Key] = tg.Value.GetStr().GetValue()
		}
	}
	var ks []string
	for _, g := range groupBy {
		ks = append(ks, vals[g])
	}
	for _, f := range dp.Fields {
		if f.Name == field {
			if iv, ok := f.Value.Value.(*modelv1.FieldValue_Int); ok {
				return strings.Join(ks, "\x00"), iv.Int.Value, true
			}
		}
	}
	return strings.Join(ks, "\x00"), 0, false
}

func normalizeMeasureResp(r *measurev1.QueryResponse) *measurev1.QueryResponse {
	c := proto.Clone(r).(*measurev1.QueryResponse)
	c.Trace = nil
	for _, dp := range c.DataPoints { // server-side bookkeeping, not part of the answer
		dp.Version, dp.Sid = 0, 0
	}
	return c
}

// sortGroups orders the data points of a group-by answer by their tag values: the API defines no order
// among groups when the request has no order-by / top.
func sortGroups(r *measurev1.QueryResponse) {
	sort.SliceStable(r.DataPoints, func(i, j int) bool {
		return prototext.Format(&measurev1.DataPoint{TagFamilies: r.DataPoints[i].TagFamilies}) < prototext.Format(&measurev1.DataPoint{TagFamilies: r.DataPoints[j].TagFamilies})
	})
}

// firstDifference describes where two responses start to differ (element index and both elements).
func firstDifference(a, b proto.Message) map[string]any {
	list := func(m proto.Message) []proto.Message {
		var out []proto.Message
		switch x := m.(type) {
		case *measurev1.QueryResponse:
			for _, d := range x.DataPoints {
				out = append(out, d)
			}
		case *streamv1.QueryResponse:
			for _, d := range x.Elements {
				out = append(out, d)
			}
		}
		return out
	}
	la, lb := list(a), list(b)
	out := map[string]any{"vectorized_rows": len(la), "row_rows": len(lb)}
	for i := 0; i < len(la) || i < len(lb); i++ {
		var x, y proto.Message
		if i < len(la) {
			x = la[i]
		}
		if i < len(lb) {
			y = lb[i]
		}
		if x == nil || y == nil || !proto.Equal(x, y) {
			out["first_differing_index"] = i
			if x != nil {
				out["vectorized_element"] = clipS(prototext.MarshalOptions{}.Format(x), 900)
			}
			if y != nil {
				out["row_element"] = clipS(prototext.MarshalOptions{}.Format(y), 900)
			}
			break
		}
	}
	return out
}

// modelStreamAnswer is the documented answer of a time-ordered stream query: matching rows in time order, the
// window [offset, offset+limit) of them (limit 0 = the server default of 20). nil when the request leaves the
// order open.
func modelStreamAnswer(req *streamv1.QueryRequest, tr *tree, rows []qrow) []int64 {
	if req.OrderBy == nil || req.OrderBy.IndexRuleName != "" {
		return nil
	}
	var m []qrow
	for _, q := range rows {
		if tr.eval(q) {
			m = append(m, q)
		}
	}
	asc := req.OrderBy.Sort != modelv1.Sort_SORT_DESC
	sort.Slice(m, func(i, j int) bool { return m[i].ts.Before(m[j].ts) == asc })
	limit := int(req.Limit)
	if limit == 0 {
		limit = 20
	}
	lo := min(int(req.Offset), len(m))
	hi := min(lo+limit, len(m))
	out := []int64{}
	for _, q := range m[lo:hi] {
		out = append(out, q.uid)
	}
	return out
}

// kpG is the key prefix compareStream uses (set by runDifferential).
var kpG = "c15"

func elemUID(e *streamv1.Element) int64 {
	for _, tf := range e.TagFamilies {
		for _, tg := range tf.Tags {
			if tg.Key == "uid" {
				return tg.Value.GetInt().GetValue()
			}
		}
	}
	return -1
}

// compareStream decides whether the two servers' stream answers agree. Timestamps of the workload are
// distinct, so time order defines the answer completely; an index order defines it up to ties on the
// ordered tag (dur), so tie groups are compared as sets and a tie group cut by offset/limit only by size.
// It returns "" or a violation key plus detail.
func compareStream(req *streamv1.QueryRequest, a, c *streamv1.QueryResponse, dur map[int64]int64) (string, map[string]any) {
	if proto.Equal(a, c) {
		return "", nil
	}
	d := firstDifference(a, c)
	byIndex := req.OrderBy != nil && req.OrderBy.IndexRuleName != ""
	if !byIndex {
		if req.Criteria != nil && len(a.Elements) < len(c.Elements) {
			prefix := true
			for i := range a.Elements {
				prefix = prefix && proto.Equal(a.Elements[i], c.Elements[i])
			}
			if prefix {
				return kpG + ":stream:criteria+time-order:vectorized-answer-is-a-strict-prefix-of-row-answer", d
			}
		}
		// which side is out of time order, and do both hold the same elements? (recorded for the reader of the replay)
		sorted := func(r *streamv1.QueryResponse) bool {
			desc := req.OrderBy != nil && req.OrderBy.Sort == modelv1.Sort_SORT_DESC
			for i := 1; i < len(r.Elements); i++ {
				x, y := r.Elements[i-1].Timestamp.AsTime(), r.Elements[i].Timestamp.AsTime()
				if (desc && y.After(x)) || (!desc && y.Before(x)) {
					d["first_out_of_order_index"] = i
					return false
				}
			}
			return true
		}
		ua, uc := map[int64]bool{}, map[int64]bool{}
		for _, e := range a.Elements {
			ua[elemUID(e)] = true
		}
		same := len(a.Elements) == len(c.Elements)
		for _, e := range c.Elements {
			uc[elemUID(e)] = true
			same = same && ua[elemUID(e)]
		}
		d["same_elements"], d["first_answer_in_time_order"], d["second_answer_in_time_order"] = same, sorted(a), sorted(c)
		return kpG + ":response-differs:stream", d
	}
	if len(a.Elements) != len(c.Elements) {
		return kpG + ":response-differs:stream:index-order:row-count", d
	}
	n := len(a.Elements)
	for i := 0; i < n; i++ {
		if dur[elemUID(a.Elements[i])] != dur[elemUID(c.Elements[i])] {
			d["first_differing_order_key_at"] = i
			return kpG + ":response-differs:stream:index-order:key-sequence", d
		}
	}
	// tie groups
	for i := 0; i < n; {
		j := i
		k := dur[elemUID(a.Elements[i])]
		for j < n && dur[elemUID(a.Elements[j])] == k {
			j++
		}
		cutAtStart := i == 0 && req.Offset > 0
		cutAtEnd := j == n && req.Limit > 0 && uint32(n) == req.Limit || (j == n && req.Limit == 0) // 0 = server default limit
		if !cutAtStart && !cutAtEnd {
			va, vc := map[int64]*streamv1.Element{}, map[int64]*streamv1.Element{}
			for x := i; x < j; x++ {
				va[elemUID(a.Elements[x])] = a.Elements[x]
				vc[elemUID(c.Elements[x])] = c.Elements[x]
			}
			for u, e := range va {
				o, ok := vc[u]
				if !ok {
					d["tie_group_key"], d["element_only_in_vectorized_uid"] = k, u
					return kpG + ":response-differs:stream:index-order:tie-group-members", d
				}
				x, y := proto.Clone(e).(*streamv1.Element), proto.Clone(o).(*streamv1.Element)
				if !proto.Equal(x, y) {
					d["tie_group_key"], d["uid"] = k, u
					return kpG + ":response-differs:stream:index-order:element-content", d
				}
			}
		}
		i = j
	}
	return "", nil
}

func TestVerifC15(t *testing.T) {
	s := verifh.S()
	vec := boot(t, "--measure-vectorized-enabled=true", "--stream-vectorized-enabled=true", "--trace-vectorized-enabled=true")
	defer vec.stop()
	row := boot(t, "--measure-vectorized-enabled=false", "--stream-vectorized-enabled=false", "--trace-vectorized-enabled=false")
	defer row.stop()
	runDifferential(t, s, vec, row, "c15", "vectorized", "row", nil)
	s.Done()
}

// runDifferential feeds two servers the same rows and the same seeded programs and compares the answers
// (kp prefixes the violation keys; la/lb name the two sides; settle, if given, waits until side A has all rows).
func runDifferential(t *testing.T, s *verifh.Sink, vec, row *srv, kp, la, lb string, settle func(rows []qrow, arows []aggRow) bool) {
	altReady := false
	base := time.Date(2024, 5, 10, 0, 0, 0, 0, time.UTC)
	lo, hi := base.Add(-time.Hour), base.Add(6*24*time.Hour)
	// --- dataset A: the criteria/order workload of C08/C09 (streams + measures)
	var uid int64
	r0 := verifh.Rand("c15data", 0)
	rows := genDataset(r0, verifh.Pick(400, 2000), 8, 3, base, &uid, true)
	bs := []binding{c08Bindings[0], c08Bindings[1], c08Bindings[4]}
	setupQueryWorld(t, vec, bs, rows)
	setupQueryWorld(t, row, bs, rows)
	// --- dataset B: aggregation workload
	var arows []aggRow
	ra := verifh.Rand("c15agg", 0)
	for i := 0; i < verifh.Pick(600, 4000); i++ {
		uid++
		a := aggRow{id: fmt.Sprintf("a%02d", ra.Intn(6)), uid: uid, ts: base.Add(time.Duration(ra.Intn(3))*24*time.Hour + time.Duration(i)*time.Second)}
		// svc and region are attributes of the series, so that group-by keys are well defined per series
		a.svc, a.region = fmt.Sprintf("svc-%d", int(a.id[2]-'0')%3), fmt.Sprintf("r%d", int(a.id[2]-'0')%2)
		// distinct values: TOP/BOTTOM-N is only defined up to ties, so the workload has none among raw points
		a.v = int64(i)*7919%2000003 - 1000000
		switch i {
		case 10:
			a.v = 1 << 40
		case 20:
			a.v = -(1 << 40)
		case 30:
			a.v = 0
		}
		a.fl = float64(ra.Intn(100000)) / 100
		arows = append(arows, a)
	}
	// values beyond 2^53 that differ by less than the float64 spacing there (2^58+1..12 and their negatives),
	// two per series, arriving in ascending order in even series and in descending order in odd ones, so no
	// arrival order makes a lossy comparison come out right
	for j := int64(0); j < 6; j++ {
		for h := int64(1); h <= 2; h++ {
			for sign := int64(1); sign >= -1; sign -= 2 {
				uid++
				at := time.Duration(h) * time.Minute
				if j%2 == 1 {
					at = time.Duration(3-h) * time.Minute
				}
				a := aggRow{id: fmt.Sprintf("a%02d", j), uid: uid, ts: base.Add(time.Duration(j%3)*24*time.Hour + 20*time.Hour + at + time.Duration(sign+1+10*j)*time.Second), v: sign * (1<<58 + 2*j + h), fl: 1}
				a.svc, a.region = fmt.Sprintf("svc-%d", int(a.id[2]-'0')%3), fmt.Sprintf("r%d", int(a.id[2]-'0')%2)
				arows = append(arows, a)
			}
		}
	}
	setupAggWorld(t, vec, arows)
	setupAggWorld(t, row, arows)
	// --- dataset T: groups whose ranking differs from node to node. Five groups of six series each (spread over the
	//     shards): g0 has a moderate value in every series, so its total is the largest although no single series -
	//     and hence no node's partial - leads; g1..g3 hold one big series each; g4 mirrors g0 with negative values
	//     (the smallest total). Any pruning of per-node partials before the coordinator has seen all of them misranks.
	var trows []aggRow
	for g := 0; g < 5; g++ {
		for k := 0; k < 6; k++ {
			for rep := 0; rep < 3; rep++ {
				uid++
				v := int64(0)
				switch {
				case g == 0:
					v = 100 + int64(k)
				case g == 4:
					v = -100 - int64(k)
				case k == g: // one leading series per group g1..g3
					v = 170 - 10*int64(g)
				default:
					v = int64(k % 2)
				}
				trows = append(trows, aggRow{id: fmt.Sprintf("t%d%d", g, k), uid: uid, svc: fmt.Sprintf("g%d", g), region: fmt.Sprintf("r%d", k%2),
					ts: base.Add(time.Duration(rep)*24*time.Hour + 10*time.Hour + time.Duration(g*6+k)*time.Second), v: v, fl: float64(v)})
			}
		}
	}
	setupAggWorldNamed(t, vec, trows, "mt", false)
	setupAggWorldNamed(t, row, trows, "mt", false)
	// --- dataset C: the same shape with null group-by tags (differential only). Null FIELD values are left out:
	//     the row path answers an aggregation over a field holding a null with an empty result (FromFieldValue
	//     fails, the iterator stops, the error is dropped), so it cannot serve as the yardstick there.
	var brows []aggRow
	rb := verifh.Rand(kp+"aggnull", 0)
	for i := 0; i < verifh.Pick(500, 3000); i++ {
		uid++
		b := aggRow{id: fmt.Sprintf("a%02d", rb.Intn(6)), uid: uid, ts: base.Add(time.Duration(rb.Intn(3))*24*time.Hour + 30*time.Minute + time.Duration(i)*time.Second),
			v: int64(i)*7919%20011 - 10000, fl: float64(rb.Intn(1000)) / 4, svcNull: rb.Intn(4) == 0}
		b.svc, b.region = fmt.Sprintf("svc-%d", rb.Intn(3)), fmt.Sprintf("r%d", rb.Intn(2))
		brows = append(brows, b)
	}
	setupAggWorldNamed(t, vec, brows, "mb", false)
	setupAggWorldNamed(t, row, brows, "mb", false)
	// --- dataset D: a handful of rows with null field values, for one probe of the null-field behaviour
	var crows []aggRow
	for i := 0; i < 30; i++ {
		uid++
		crows = append(crows, aggRow{id: fmt.Sprintf("a%02d", i%3), uid: uid, svc: "s", region: "r", ts: base.Add(40*time.Minute + time.Duration(i)*time.Second), v: int64(i + 1), fl: 1, vNull: i%6 == 0})
	}
	setupAggWorldNamed(t, vec, crows, "mc", false)
	setupAggWorldNamed(t, row, crows, "mc", false)
	time.Sleep(1200 * time.Millisecond)

	durOf := map[int64]int64{}
	for _, q := range rows {
		durOf[q.uid] = q.dur
	}
	kpG = kp
	if settle != nil && !settle(rows, arows) {
		s.Inconclusive("side " + la + " did not hold all rows within the settle bound")
		return
	}
	// every side (and the second coordinator) holds datasets T and C completely before they are queried; with
	// replicas a query is answered by one copy per shard, so a run of consecutive complete answers is required
	for _, sv := range []*srv{vec, row, vec.alt} {
		if sv == nil {
			continue
		}
		for name, n := range map[string]int{"mt": len(trows), "mb": len(brows)} {
			streak := 0
			for i := 0; i < 480 && streak < 8; i++ {
				resp, err := sv.queryMeasure(&measurev1.QueryRequest{Groups: []string{"ga"}, Name: name, TimeRange: tsRange(lo, hi), Limit: 1000000,
					TagProjection:   &modelv1.TagProjection{TagFamilies: []*modelv1.TagProjection_TagFamily{{Name: "default", Tags: []string{"uid"}}}},
					FieldProjection: &measurev1.QueryRequest_FieldProjection{Names: []string{"v"}}})
				if err == nil && len(resp.DataPoints) == n {
					streak++
					time.Sleep(50 * time.Millisecond)
				} else {
					streak = 0
					time.Sleep(500 * time.Millisecond)
				}
			}
			if streak < 8 {
				s.Inconclusive("dataset " + name + " was not completely queryable on every side within the settle bound")
				return
			}
		}
	}
	if kp == "c15" {
		pq := aggQuery{name: "mc", groupBy: []string{"id"}, hasAgg: true, fn: modelv1.AggregationFunction_AGGREGATION_FUNCTION_SUM, field: "v", limit: 100}
		pa, ea := vec.queryMeasure(pq.request(lo, hi))
		pc, ec := row.queryMeasure(pq.request(lo, hi))
		if ea == nil && ec == nil && len(pa.DataPoints) > 0 && len(pc.DataPoints) == 0 {
			s.Violation("c15:measure-agg:null-field-values:row-path-answers-nothing", map[string]any{"program": "SUM(v) group by id over 30 points of which 5 hold a null v",
				"vectorized_groups": len(pa.DataPoints), "row_groups": len(pc.DataPoints)})
		} else if (ea == nil) != (ec == nil) || (ea == nil && len(pa.DataPoints) != len(pc.DataPoints)) {
			s.Violation("c15:measure-agg:null-field-values:paths-differ", map[string]any{"vectorized_err": fmt.Sprint(ea), "row_err": fmt.Sprint(ec)})
		}
	}
	h0, s0 := vmplan.HandledCount(), vstream.QueryCount()
	nQ := verifh.Pick(160, 2500)
	for i := 0; i < nQ; i++ {
		r := verifh.Rand("c15q", i)
		var desc string
		var rv, rr proto.Message
		var ev, er error
		hBefore, sBefore := vmplan.HandledCount(), vstream.QueryCount()
		switch k := r.Intn(12); {
		case k < 4: // stream criteria / order / window
			b := bs[r.Intn(2)]
			tr := genCriteria(r, r.Intn(3))
			req := &streamv1.QueryRequest{Groups: []string{"qs"}, Name: b.name, TimeRange: tsRange(lo, hi), Criteria: tr.proto(),
				Projection: &modelv1.TagProjection{TagFamilies: []*modelv1.TagProjection_TagFamily{{Name: "default", Tags: [][]string{{"uid"}, {"uid", "svc", "labels"}, {"id", "uid", "svc", "n", "dur", "labels", "codes"}}[r.Intn(3)]}}},
				Limit:      uint32([]int{0, 1, 7, 50, 5000}[r.Intn(5)]), Offset: uint32([]int{0, 0, 1, 13}[r.Intn(4)])}
			if r.Intn(2) == 0 {
				req.OrderBy = &modelv1.QueryOrder{Sort: []modelv1.Sort{modelv1.Sort_SORT_ASC, modelv1.Sort_SORT_DESC}[r.Intn(2)]}
				if b.typ != databasev1.IndexRule_TYPE_UNSPECIFIED && r.Intn(2) == 0 {
					req.OrderBy.IndexRuleName = b.name + "_dur"
				}
			}
			desc = "stream " + b.name + " " + clipS(prototext.MarshalOptions{Multiline: false}.Format(req), 500)
			var a, c *streamv1.QueryResponse
			a, ev = vec.queryStream(proto.Clone(req).(*streamv1.QueryRequest))
			c, er = row.queryStream(proto.Clone(req).(*streamv1.QueryRequest))
			if a != nil {
				a.Trace = nil
				rv = a
			}
			if c != nil {
				c.Trace = nil
				rr = c
			}
			if a != nil && c != nil {
				if key, d := compareStream(req, a, c, durOf); key != "" {
					s.Count("disagreements_checked", 1)
					d["program"] = desc
					// when the two sides differ, the side under test (A) may still be the one that is right: judge it
					// against the documented answer where the request defines one (side B's deviation belongs to C15/C09)
					if want := modelStreamAnswer(req, tr, rows); want != nil && kp != "c15" {
						var got []int64
						for _, e := range a.Elements {
							got = append(got, elemUID(e))
						}
						var gotB []int64
						for _, e := range c.Elements {
							gotB = append(gotB, elemUID(e))
						}
						// every node cuts its own scan, so the merged answer may also have holes: an ordered
						// subsequence of the documented window
						full := modelStreamAnswer(&streamv1.QueryRequest{OrderBy: req.OrderBy, Limit: 1 << 30}, tr, rows)
						isStart := func(x []int64) bool { // an ordered subsequence of all matching rows
							j := 0
							for _, u := range x {
								for j < len(full) && full[j] != u {
									j++
								}
								if j == len(full) {
									return false
								}
								j++
							}
							return true
						}
						if fmt.Sprint(got) == fmt.Sprint(want) || (len(got) == 0 && len(want) == 0) {
							s.Count(kp+".side_"+la+"_matches_the_model_where_side_"+lb+"_does_not", 1)
							key = ""
						} else if req.Criteria != nil && isStart(got) && isStart(gotB) {
							key = kp + ":stream:criteria-evaluated-after-scan:cluster-and-standalone-cut-the-window-at-different-points"
							d["model_rows"], d["side_"+la+"_rows"], d["side_"+lb+"_rows"] = len(want), len(got), len(gotB)
						} else {
							d["model_uids"], d["side_"+la+"_uids"] = clipS(fmt.Sprint(want), 300), clipS(fmt.Sprint(got), 300)
						}
					}
					if key != "" && kp != "c15" && req.Criteria != nil && req.OrderBy == nil {
						// no order requested: the model defines no window, but the same defect shows as one side's
						// answer being the start of the other's
						n := min(len(a.Elements), len(c.Elements))
						same := n > 0 || len(a.Elements) != len(c.Elements)
						for i := 0; i < n; i++ {
							same = same && proto.Equal(a.Elements[i], c.Elements[i])
						}
						if same && len(a.Elements) != len(c.Elements) {
							key = kp + ":stream:criteria-evaluated-after-scan:cluster-and-standalone-cut-the-window-at-different-points"
						}
					}
					if key != "" {
						s.Violation(key, d)
					}
				}
				rv, rr = nil, nil // judged above
			}
		case k < 6: // measure raw points with criteria on index tags / order by time
			b := bs[2]
			tr := genCriteria(r, r.Intn(2))
			req := &measurev1.QueryRequest{Groups: []string{"qm"}, Name: b.name, TimeRange: tsRange(lo, hi), Criteria: tr.proto(),
				TagProjection:   &modelv1.TagProjection{TagFamilies: []*modelv1.TagProjection_TagFamily{{Name: "default", Tags: [][]string{{"uid"}, {"id", "uid", "svc", "n"}}[r.Intn(2)]}}},
				FieldProjection: &measurev1.QueryRequest_FieldProjection{Names: []string{"v"}},
				Limit:           uint32([]int{0, 1, 7, 5000}[r.Intn(4)]), Offset: uint32([]int{0, 0, 2}[r.Intn(3)])}
			if r.Intn(2) == 0 {
				req.OrderBy = &modelv1.QueryOrder{Sort: []modelv1.Sort{modelv1.Sort_SORT_ASC, modelv1.Sort_SORT_DESC}[r.Intn(2)]}
			}
			desc = "measure " + clipS(prototext.MarshalOptions{Multiline: false}.Format(req), 500)
			var a, c *measurev1.QueryResponse
			a, ev = vec.queryMeasure(proto.Clone(req).(*measurev1.QueryRequest))
			c, er = row.queryMeasure(proto.Clone(req).(*measurev1.QueryRequest))
			if a != nil {
				rv = normalizeMeasureResp(a)
			}
			if c != nil {
				rr = normalizeMeasureResp(c)
			}
		case k < 8: // measure raw points whose tag and field values differ from point to point (single- and multi-series)
			req := &measurev1.QueryRequest{Groups: []string{"ga"}, Name: "ma", TimeRange: tsRange(lo, hi),
				TagProjection:   &modelv1.TagProjection{TagFamilies: []*modelv1.TagProjection_TagFamily{{Name: "default", Tags: [][]string{{"uid"}, {"id", "uid", "svc"}, {"uid", "region", "id"}}[r.Intn(3)]}}},
				FieldProjection: &measurev1.QueryRequest_FieldProjection{Names: [][]string{{"v"}, {"fl", "v"}, {"fl"}}[r.Intn(3)]},
				Limit:           uint32([]int{0, 1, 7, 5000}[r.Intn(4)]), Offset: uint32([]int{0, 0, 2}[r.Intn(3)])}
			switch r.Intn(3) {
			case 0:
				req.Criteria = &modelv1.Criteria{Exp: &modelv1.Criteria_Condition{Condition: &modelv1.Condition{Name: "id", Op: modelv1.Condition_BINARY_OP_EQ, Value: tStr(fmt.Sprintf("a%02d", r.Intn(6)))}}}
			case 1:
				req.Criteria = &modelv1.Criteria{Exp: &modelv1.Criteria_Condition{Condition: &modelv1.Condition{Name: "id", Op: modelv1.Condition_BINARY_OP_IN, Value: tStrArr([]string{fmt.Sprintf("a%02d", r.Intn(6)), fmt.Sprintf("a%02d", r.Intn(6))})}}}
			}
			if r.Intn(3) > 0 {
				req.OrderBy = &modelv1.QueryOrder{Sort: []modelv1.Sort{modelv1.Sort_SORT_ASC, modelv1.Sort_SORT_DESC}[r.Intn(2)]}
			}
			if r.Intn(4) == 0 { // a narrow window inside one day
				d := time.Duration(r.Intn(3)) * 24 * time.Hour
				req.TimeRange = tsRange(base.Add(d), base.Add(d+time.Duration(1+r.Intn(600))*time.Second))
			}
			desc = "measure-raw " + clipS(prototext.MarshalOptions{Multiline: false}.Format(req), 500)
			var a, c *measurev1.QueryResponse
			a, ev = vec.queryMeasure(proto.Clone(req).(*measurev1.QueryRequest))
			c, er = row.queryMeasure(proto.Clone(req).(*measurev1.QueryRequest))
			if a != nil {
				rv = normalizeMeasureResp(a)
			}
			if c != nil {
				rr = normalizeMeasureResp(c)
			}
		default: // aggregation / group-by / top
			q := genAggQuery(r, i)
			if r.Intn(3) == 0 {
				q.name = "mb"
				q.desc += " on mb (null group tags)"
			} else if q.top > 0 && q.hasAgg && q.crit == nil && r.Intn(2) == 0 {
				q.name = "mt"
				q.desc += " on mt (node-local rankings differ)"
			}
			req := q.request(lo, hi)
			desc = "measure-agg " + q.desc
			var a, c *measurev1.QueryResponse
			a, ev = vec.queryMeasure(proto.Clone(req).(*measurev1.QueryRequest))
			c, er = row.queryMeasure(proto.Clone(req).(*measurev1.QueryRequest))
			if a != nil {
				a = normalizeMeasureResp(a)
				if q.top == 0 {
					sortGroups(a)
				}
				rv = a
			}
			if c != nil {
				c = normalizeMeasureResp(c)
				if q.top == 0 {
					sortGroups(c)
				}
				rr = c
			}
			// TOP/BOTTOM-N over aggregates: groups with equal aggregate values may come in any order and any of
			// them may fill the last places, so with ties only the values are compared
			if a != nil && c != nil && q.top > 0 && q.hasAgg && !proto.Equal(a, c) {
				vals := func(r *measurev1.QueryResponse) (out []int64, tie bool) {
					seen := map[int64]bool{}
					for _, dp := range r.DataPoints {
						for _, f := range dp.Fields {
							if f.Name == q.field {
								v := f.Value.GetInt().GetValue()
								tie = tie || seen[v]
								seen[v] = true
								out = append(out, v)
							}
						}
					}
					return out, tie
				}
				va, _ := vals(a)
				vc, _ := vals(c)
				// equal value sequences: which of several groups with the same aggregate fills a place is open
				// (the group -> value association itself is judged by the C10 reference comparison)
				if fmt.Sprint(va) == fmt.Sprint(vc) {
					rv, rr = nil, nil
					s.Count(kp+".top_answers_equal_up_to_ties", 1)
				}
			}
			// C10: both servers' answers against the reference (group key -> aggregate); in a cluster also the answer of
			// the second coordinator, which runs the other engine's distributed plan over the same data nodes
			answers, paths := []*measurev1.QueryResponse{c, a}, []string{lb, la}
			if vec.alt != nil {
				alt, err := vec.alt.queryMeasure(proto.Clone(req).(*measurev1.QueryRequest))
				for try := 0; err != nil && ev == nil && !altReady && try < 60; try++ { // the second coordinator learns the schema on its own
					time.Sleep(500 * time.Millisecond)
					alt, err = vec.alt.queryMeasure(proto.Clone(req).(*measurev1.QueryRequest))
				}
				if err == nil && alt != nil {
					altReady = true
					alt = normalizeMeasureResp(alt)
					if q.top == 0 {
						sortGroups(alt)
					}
					answers, paths = append(answers, alt), append(paths, la+"-row-coordinator")
					s.Count("c10.svc.row_coordinator_answers", 1)
				} else if ev == nil {
					s.Violation("c10:svc:"+la+"-row-coordinator:error-on-this-coordinator-only", map[string]any{"query": q.desc, "err": fmt.Sprint(err)})
				}
			}
			refRows := arows
			if q.name == "mt" {
				refRows = trows
			}
			for si, resp := range answers {
				path := paths[si]
				if resp == nil || q.name == "mb" {
					continue
				}
				if q.hasAgg && q.top == 0 {
					want := refAgg(refRows, q)
					got := map[string]int64{}
					dup := false
					for _, dp := range resp.DataPoints {
						k, v, ok := dpKeyVal(dp, q.groupBy, q.field)
						if !ok {
							continue
						}
						if _, seen := got[k]; seen {
							dup = true
						}
						got[k] = v
					}
					s.Count("c10.svc.aggregate_queries_checked", 1)
					if d := diffAgg(got, want, q); d != "" || dup {
						key := "c10:svc:" + path + ":" + fnName(q.fn) + ":differs-from-reference"
						if fnName(q.fn) == "MEAN" && strings.Contains(d, "clamped") {
							key = "agg:int64:MEAN:clamped-to-1-when-mean-below-1"
						} else if strings.HasPrefix(path, "cluster") && spansShards(q) && vec.replicas > 0 && !dup {
							key = "c10:svc:cluster:group-spanning-shards-with-replicas:partials-miscounted"
						}
						s.Violation(key, map[string]any{"query": q.desc, "path": path, "discrepancy": d, "group_returned_twice": dup, "groups_expected": len(want), "groups_returned": len(got)})
					}
				}
				if q.top > 0 {
					checkTop(s, resp, refRows, q, path, strings.HasPrefix(path, "cluster") && spansShards(q) && vec.replicas > 0)
				}
			}
		}
		handled := vmplan.HandledCount() > hBefore || vstream.QueryCount() > sBefore
		s.Case(desc, handled)
		s.Count("programs", 1)
		if handled {
			s.Count(kp+".programs_handled_by_vectorized_path", 1)
		} else {
			s.Count(kp+".programs_that_fell_back_to_row_path", 1)
		}
		if i < 3 {
			s.Sample(map[string]any{"program": desc, "vectorized_path_handled_it": handled})
		}
		switch {
		case (ev == nil) != (er == nil):
			s.Count("disagreements_checked", 1)
			key := kp + ":error-on-one-path-only"
			if ev != nil && strings.HasPrefix(desc, "measure ") && strings.Contains(ev.Error(), "panic") && strings.Contains(desc, `name:"labels"`) {
				// the vectorized path adds the criteria tags to the projection; an indexed string-array tag of a
				// measure cannot be decoded from the series index (the C01 finding), so only this path fails
				key = kp + ":measure:criteria-on-indexed-string-array-tag:vectorized-path-panics"
			}
			if kp == "c17" && ev != nil && strings.HasPrefix(desc, "stream ") && strings.Contains(desc, "index_rule_name") && strings.Contains(ev.Error(), "tag dur not found") &&
				!strings.Contains(desc, `tags:"dur"`) {
				// the coordinator needs the ordered tag in the elements to merge the nodes' answers and looks it up in
				// the projected schema only
				key = "c17:stream:index-order-without-projecting-the-ordered-tag:cluster-rejects-the-query"
			}
			s.Violation(key, map[string]any{"program": desc, "vectorized_err": fmt.Sprint(ev), "row_err": fmt.Sprint(er)})
		case ev != nil:
			s.Count(kp+".rejected_by_both", 1)
		case rv != nil && rr != nil && !proto.Equal(rv, rr):
			s.Count("disagreements_checked", 1)
			kind := strings.SplitN(desc, " ", 2)[0]
			d := firstDifference(rv, rr)
			d["program"] = desc
			key := kp + ":response-differs:" + kind
			// groups that span shards: any group-by of datasets mb/mt (tags vary per row / groups hold several series),
			// "group by svc" of dataset ma. A dropped partial also changes MIN/MAX, a doubled one does not.
			spanning := strings.Contains(desc, " on mb") || strings.Contains(desc, " on mt") || (strings.Contains(desc, "group by svc") && !strings.Contains(desc, "group by svc,region"))
			if kp == "c17" && kind == "measure-agg" && vec.replicas > 0 && spanning {
				key = "c17:measure-agg:group-spanning-shards-with-replicas:partials-miscounted"
			}
			s.Violation(key, d)
		}
	}
	s.Count(kp+".vectorized_measure_handled_total", vmplan.HandledCount()-h0)
	s.Count(kp+".vectorized_stream_queries_total", vstream.QueryCount()-s0)
	if vmplan.HandledCount()-h0 == 0 && vstream.QueryCount()-s0 == 0 && os.Getenv("VERIF_C17_ROW") == "" {
		s.Inconclusive("the vectorized path never handled a query")
	}
}

// spansShards: the group-by key does not contain the entity tag, so one group holds series of several shards.
func spansShards(q aggQuery) bool {
	for _, g := range q.groupBy {
		if g == "id" {
			return false
		}
	}
	if !q.hasAgg || len(q.groupBy) == 0 {
		return false
	}
	if q.name == "mb" || q.name == "mt" {
		return true // group tags vary per row (mb) / every group holds six series (mt)
	}
	return len(q.groupBy) == 1 // dataset ma: svc (or region) alone groups several series; (svc, region) identifies one
}

func diffAgg(got, want map[string]int64, q aggQuery) string {
	for k, w := range want {
		g, ok := got[k]
		if !ok {
			return fmt.Sprintf("group %q missing", strings.ReplaceAll(k, "\x00", ","))
		}
		if g != w {
			if fnName(q.fn) == "MEAN" && w < 1 && g == 1 {
				return fmt.Sprintf("group %q: mean %d clamped to 1", strings.ReplaceAll(k, "\x00", ","), w)
			}
			return fmt.Sprintf("group %q: %s = %d, reference %d", strings.ReplaceAll(k, "\x00", ","), fnName(q.fn), g, w)
		}
	}
	for k := range got {
		if _, ok := want[k]; !ok {
			return fmt.Sprintf("unexpected group %q", strings.ReplaceAll(k, "\x00", ","))
		}
	}
	return ""
}

// checkTop: TOP/BOTTOM-N over raw points or over an aggregate per group.
func checkTop(s *verifh.Sink, resp *measurev1.QueryResponse, rows []aggRow, q aggQuery, path string, miscountedPartials bool) {
	var vals []int64
	if q.hasAgg {
		for _, v := range refAgg(rows, q) {
			vals = append(vals, v)
		}
	} else {
		for _, a := range rows {
			if q.sel(a) {
				vals = append(vals, a.v)
			}
		}
	}
	sort.Slice(vals, func(i, j int) bool {
		if q.topSort == modelv1.Sort_SORT_ASC {
			return vals[i] < vals[j]
		}
		return vals[i] > vals[j]
	})
	n := min(int(q.top), len(vals))
	var got []int64
	for _, dp := range resp.DataPoints {
		for _, f := range dp.Fields {
			if f.Name == q.field {
				got = append(got, f.Value.GetInt().GetValue())
			}
		}
	}
	s.Count("c10.svc.top_queries_checked", 1)
	if q.hasAgg && fnName(q.fn) == "MEAN" {
		return // the clamp (recorded finding) changes which groups are extreme
	}
	sort.Slice(got, func(i, j int) bool {
		if q.topSort == modelv1.Sort_SORT_ASC {
			return got[i] < got[j]
		}
		return got[i] > got[j]
	})
	bad := len(got) != n
	for i := 0; i < n && !bad; i++ {
		bad = got[i] != vals[i]
	}
	if bad {
		key := "c10:svc:" + path + ":top:differs-from-reference"
		if miscountedPartials { // the recorded replica/partial finding also changes which aggregates are extreme
			key = "c10:svc:cluster:group-spanning-shards-with-replicas:partials-miscounted"
		}
		s.Violation(key, map[string]any{"query": q.desc, "path": path, "returned_values": got, "reference_values": vals[:n]})
	}
}
