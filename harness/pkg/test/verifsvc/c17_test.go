package verifsvc

// C17 (cluster vs standalone) — a cluster answers like a standalone node.
// An in-process cluster (one liaison, N data nodes, file-based discovery; groups with 2 shards and a seeded
// replica count) and an in-process standalone server receive the same acknowledged rows. Once the liaison's
// write queue has been delivered (every dataset returns its full row count through the liaison), the seeded
// programs of the C15 unit (stream criteria/order/window, measure raw, aggregation/group-by/top) run on both
// and the answers are compared; the aggregates are also compared with the reference (C10: partials computed
// on data nodes and reduced at the coordinator, replicas counted once).

import (
	"os"
	"path/filepath"
	"testing"
	"time"

	measurev1 "github.com/apache/skywalking-banyandb/api/proto/banyandb/measure/v1"
	modelv1 "github.com/apache/skywalking-banyandb/api/proto/banyandb/model/v1"
	streamv1 "github.com/apache/skywalking-banyandb/api/proto/banyandb/stream/v1"
	"github.com/apache/skywalking-banyandb/pkg/verifh"
)

func TestVerifC17(t *testing.T) {
	s := verifh.S()
	dir := filepath.Join(verifh.Scratch(), "c17disc")
	os.MkdirAll(dir, 0o755)
	nData := 2 + int(verifh.Seed()%2)
	var lf, df []string
	if os.Getenv("VERIF_C17_ROW") != "" { // experiment switch: both sides on the row engine
		lf = []string{"--measure-vectorized-enabled=false", "--stream-vectorized-enabled=false"}
		df = lf
	}
	cl := bootCluster(t, nData, dir, lf, df...)
	defer cl.stop()
	// With replicas the recorded partial-aggregate finding (a group spanning shards is de-duplicated by shard id)
	// makes group-by aggregates unreliable, and mismatches of such queries are attributed to it. So that this
	// attribution never hides anything else in the run made on every change, the default quick run (seed 1) has
	// no replicas; even seeds and the default thorough run exercise the replica path.
	cl.replicas = uint32((verifh.Seed() + 1) % 2)
	if verifh.Thorough() {
		cl.replicas = uint32(verifh.Seed() % 2)
	}
	sa := boot(t, lf...)
	defer sa.stop()
	base := time.Date(2024, 5, 10, 0, 0, 0, 0, time.UTC)
	lo, hi := base.Add(-time.Hour), base.Add(6*24*time.Hour)
	count := func(kind, group, name string) int {
		if kind == "measure" {
			resp, err := cl.queryMeasure(&measurev1.QueryRequest{Groups: []string{group}, Name: name, TimeRange: tsRange(lo, hi), Limit: 1000000,
				TagProjection:   &modelv1.TagProjection{TagFamilies: []*modelv1.TagProjection_TagFamily{{Name: "default", Tags: []string{"uid"}}}},
				FieldProjection: &measurev1.QueryRequest_FieldProjection{Names: []string{"v"}}})
			if err != nil {
				return -1
			}
			return len(resp.DataPoints)
		}
		resp, err := cl.queryStream(&streamv1.QueryRequest{Groups: []string{group}, Name: name, TimeRange: tsRange(lo, hi), Limit: 1000000,
			Projection: &modelv1.TagProjection{TagFamilies: []*modelv1.TagProjection_TagFamily{{Name: "default", Tags: []string{"uid"}}}}})
		if err != nil {
			return -1
		}
		return len(resp.Elements)
	}
	settle := func(rows []qrow, arows []aggRow) bool {
		want := map[[3]string]int{{"stream", "qs", "st_none"}: len(rows), {"stream", "qs", "st_inv"}: len(rows), {"measure", "qm", "m_inv"}: len(rows), {"measure", "ga", "ma"}: len(arows)}
		// with replicas a query is answered by one copy of each shard, chosen per query: the rows have settled when
		// a run of consecutive polls (more than there are copies to rotate through) all see every row
		streak := 0
		for i := 0; i < 480; i++ {
			ok := true
			for k, n := range want {
				if got := count(k[0], k[1], k[2]); got != n {
					ok = false
					if i%20 == 19 {
						s.Note("settling: " + k[2] + " holds " + itoa(got) + " of " + itoa(n))
					}
				}
			}
			if ok {
				streak++
				if streak >= 8 {
					s.Count("c17.settle_polls", int64(i+1))
					return true
				}
				time.Sleep(100 * time.Millisecond)
				continue
			}
			streak = 0
			time.Sleep(500 * time.Millisecond)
		}
		return false
	}
	s.Count("c17.data_nodes", int64(nData))
	s.Count("c17.replicas", int64(cl.replicas))
	runDifferential(t, s, cl, sa, "c17", "cluster", "standalone", settle)
	s.Done()
}

func itoa(n int) string {
	if n < 0 {
		return "error"
	}
	b := []byte{}
	if n == 0 {
		return "0"
	}
	for n > 0 {
		b = append([]byte{byte('0' + n%10)}, b...)
		n /= 10
	}
	return string(b)
}
