package verifsvc

// C01 — acknowledged writes are returned exactly as written (standalone, immediately after the ack).

import (
	"fmt"
	"math"
	"math/rand"
	"sort"
	"strings"
	"testing"
	"time"

	"google.golang.org/protobuf/types/known/timestamppb"

	commonv1 "github.com/apache/skywalking-banyandb/api/proto/banyandb/common/v1"
	databasev1 "github.com/apache/skywalking-banyandb/api/proto/banyandb/database/v1"
	measurev1 "github.com/apache/skywalking-banyandb/api/proto/banyandb/measure/v1"
	modelv1 "github.com/apache/skywalking-banyandb/api/proto/banyandb/model/v1"
	streamv1 "github.com/apache/skywalking-banyandb/api/proto/banyandb/stream/v1"
	"github.com/apache/skywalking-banyandb/pkg/verifh"
)

var (
	poolInts   = []int64{math.MinInt64, math.MinInt64 + 1, -(1 << 53) - 1, -1, 0, 1, 1<<53 + 1, math.MaxInt64, 42, -42, 1 << 32}
	poolFloats = []float64{0, math.Copysign(0, -1), 1, -1, 0.1, 5e-324, 2.2250738585072014e-308, math.MaxFloat64, math.Inf(1), math.Inf(-1), 15832.827774512765, 123456789.12345679,
		9007199254740993, 1e300, -1e-300, 99.99, 3.141592653589793, 1 << 63}
	poolStrs = []string{"", "a", "null", "|", "\\", "a|b\\c", "\x00", "é世界", " lead", "x'y\"z", strings.Repeat("k", 300)}
)

func genStr(r *rand.Rand) string {
	if r.Intn(3) == 0 {
		return poolStrs[r.Intn(len(poolStrs))]
	}
	return fmt.Sprintf("v%d", r.Intn(1<<uint(r.Intn(12))))
}

func genInt(r *rand.Rand) int64 {
	if r.Intn(3) == 0 {
		return poolInts[r.Intn(len(poolInts))]
	}
	return int64(r.Intn(1 << uint(1+r.Intn(30))))
}

func genFloat(r *rand.Rand) float64 {
	switch r.Intn(4) {
	case 0:
		return poolFloats[r.Intn(len(poolFloats))]
	case 1:
		return r.Float64() * math.Pow10(r.Intn(8))
	default:
		return float64(r.Intn(1000000)) / 100
	}
}

func genTag(r *rand.Rand, typ databasev1.TagType) *modelv1.TagValue {
	if r.Intn(9) == 0 {
		return tNull()
	}
	switch typ {
	case databasev1.TagType_TAG_TYPE_STRING:
		return tStr(genStr(r))
	case databasev1.TagType_TAG_TYPE_INT:
		return tInt(genInt(r))
	case databasev1.TagType_TAG_TYPE_DATA_BINARY:
		b := make([]byte, r.Intn(1<<uint(r.Intn(9))))
		r.Read(b)
		if r.Intn(4) == 0 {
			b = []byte("|\\|")
		}
		return tBin(b)
	case databasev1.TagType_TAG_TYPE_STRING_ARRAY:
		n := r.Intn(4)
		a := make([]string, n)
		for i := range a {
			a[i] = genStr(r)
		}
		return tStrArr(a)
	case databasev1.TagType_TAG_TYPE_INT_ARRAY:
		n := r.Intn(4)
		a := make([]int64, n)
		for i := range a {
			a[i] = genInt(r)
		}
		return tIntArr(a)
	}
	return tNull()
}

var c01Tags = []*databasev1.TagSpec{
	{Name: "id", Type: databasev1.TagType_TAG_TYPE_STRING},
	{Name: "uid", Type: databasev1.TagType_TAG_TYPE_INT},
	{Name: "s", Type: databasev1.TagType_TAG_TYPE_STRING},
	{Name: "n", Type: databasev1.TagType_TAG_TYPE_INT},
	{Name: "b", Type: databasev1.TagType_TAG_TYPE_DATA_BINARY},
	{Name: "sa", Type: databasev1.TagType_TAG_TYPE_STRING_ARRAY},
	{Name: "ia", Type: databasev1.TagType_TAG_TYPE_INT_ARRAY},
}

func fieldSpec(name string, t databasev1.FieldType) *databasev1.FieldSpec {
	return &databasev1.FieldSpec{Name: name, FieldType: t, EncodingMethod: databasev1.EncodingMethod_ENCODING_METHOD_GORILLA, CompressionMethod: databasev1.CompressionMethod_COMPRESSION_METHOD_ZSTD}
}

var c01Fields = []*databasev1.FieldSpec{
	fieldSpec("iv", databasev1.FieldType_FIELD_TYPE_INT), fieldSpec("fv", databasev1.FieldType_FIELD_TYPE_FLOAT),
	fieldSpec("sv", databasev1.FieldType_FIELD_TYPE_STRING), fieldSpec("bv", databasev1.FieldType_FIELD_TYPE_DATA_BINARY),
}

type wrote struct {
	tags   []string // canonical, by c01Tags order
	fields []string
	ts     int64
}

func tagNames() []string {
	out := make([]string, len(c01Tags))
	for i, t := range c01Tags {
		out[i] = t.Name
	}
	return out
}

// floatKey classifies a float discrepancy for violation keys.
func floatKey(wrote string) string {
	switch wrote {
	case "float:8000000000000000":
		return "negzero"
	}
	return "value"
}

func TestVerifC01(t *testing.T) {
	s := verifh.S()
	sv := boot(t)
	defer sv.stop()
	must := func(err error) {
		if err != nil {
			t.Fatalf("setup: %v", err)
		}
	}
	must(sv.group("gm", commonv1.Catalog_CATALOG_MEASURE, 2, commonv1.IntervalRule_UNIT_DAY, 1, 36500))
	must(sv.group("gs", commonv1.Catalog_CATALOG_STREAM, 2, commonv1.IntervalRule_UNIT_DAY, 1, 36500))
	must(sv.measure(&databasev1.Measure{Metadata: &commonv1.Metadata{Name: "m", Group: "gm"},
		TagFamilies: []*databasev1.TagFamilySpec{{Name: "default", Tags: c01Tags}}, Fields: c01Fields, Entity: &databasev1.Entity{TagNames: []string{"id"}}}))
	must(sv.stream(&databasev1.Stream{Metadata: &commonv1.Metadata{Name: "st", Group: "gs"},
		TagFamilies: []*databasev1.TagFamilySpec{{Name: "default", Tags: c01Tags}}, Entity: &databasev1.Entity{TagNames: []string{"id"}}}))
	base := time.Date(2024, 5, 10, 0, 0, 0, 0, time.UTC)
	sentinelTags := func() []*modelv1.TagValue {
		return []*modelv1.TagValue{tStr("sentinel"), tInt(-1), tStr("x"), tInt(0), tBin([]byte("x")), tStrArr([]string{"x"}), tIntArr([]int64{1})}
	}
	must(sv.waitWritableMeasure("gm", "m", func() *measurev1.DataPointValue {
		return &measurev1.DataPointValue{Timestamp: timestamppb.New(base.Add(-48 * time.Hour)), TagFamilies: []*modelv1.TagFamilyForWrite{{Tags: sentinelTags()}},
			Fields: []*modelv1.FieldValue{fInt(0), fFloat(0), fStr("x"), fBin([]byte("x"))}}
	}))
	must(sv.waitWritableStream("gs", "st", func() *streamv1.ElementValue {
		return &streamv1.ElementValue{ElementId: "sentinel", Timestamp: timestamppb.New(base.Add(-48 * time.Hour)), TagFamilies: []*modelv1.TagFamilyForWrite{{Tags: sentinelTags()}}}
	}))

	nCases := verifh.Pick(32, 400)
	var uid int64
	for c := 0; c < nCases; c++ {
		r := verifh.Rand("c01", c)
		win := base.Add(time.Duration(c) * 2 * time.Hour) // every case owns a 2h window (cases never share rows)
		nSeries := []int{1, 1, 3, 40}[r.Intn(4)]
		n := []int{1, 5, 60, 300, 1200}[r.Intn(5)]
		if verifh.Thorough() && c%50 == 7 {
			nSeries, n = 1, 9000 // > 8192 rows of one series: a block split inside the part
		}
		kind := "measure"
		if c%2 == 1 {
			kind = "stream"
		}
		// a directed layout instead of seeded rows: some series whose time range encloses the ranges of the others on
		// both sides, all in one batch (the time range of a part / primary block is the union of its blocks' ranges)
		enclosing := c%8 == 2 || c%8 == 7
		if enclosing {
			n = 0
		}
		model := map[int64]wrote{}
		var pts []*measurev1.DataPointValue
		var els []*streamv1.ElementValue
		var uids []int64
		valueKinds := map[string]bool{}
		constCol := r.Intn(4) == 0 // a column that is constant over the batch (constant / dictionary codecs)
		for i := 0; i < n; i++ {
			uid++
			ts := win.Add(time.Duration(i) * time.Millisecond * 5)
			tags := make([]*modelv1.TagValue, len(c01Tags))
			ser := i % nSeries
			if c%3 != 0 {
				ser = r.Intn(nSeries) // irregular arrival: time ranges of series nest and overlap inside a part
			}
			tags[0] = tStr(fmt.Sprintf("c%d-s%d", c, ser))
			tags[1] = tInt(uid)
			for j := 2; j < len(c01Tags); j++ {
				tags[j] = genTag(r, c01Tags[j].Type)
				valueKinds[strings.SplitN(canonTag(tags[j]), ":", 2)[0]] = true
			}
			if constCol {
				tags[2], tags[3] = tStr("const"), tInt(7)
			}
			w := wrote{ts: ts.UnixNano()}
			for _, tv := range tags {
				w.tags = append(w.tags, canonTag(tv))
			}
			if kind == "measure" {
				fields := []*modelv1.FieldValue{fInt(genInt(r)), fFloat(genFloat(r)), fStr(genStr(r)), fBin([]byte(genStr(r)))}
				if r.Intn(10) == 0 {
					fields[r.Intn(4)] = fNull()
				}
				if constCol {
					fields[0] = fInt(int64(i)) // delta-encodable
				}
				for _, f := range fields {
					w.fields = append(w.fields, canonField(f))
				}
				pts = append(pts, &measurev1.DataPointValue{Timestamp: timestamppb.New(ts), TagFamilies: []*modelv1.TagFamilyForWrite{{Tags: tags}}, Fields: fields})
			} else {
				els = append(els, &streamv1.ElementValue{ElementId: fmt.Sprint("e", uid), Timestamp: timestamppb.New(ts), TagFamilies: []*modelv1.TagFamilyForWrite{{Tags: tags}}})
			}
			model[uid] = w
			uids = append(uids, uid)
		}
		// one more series in the same batch whose timestamps and integer columns are an arithmetic progression with
		// one interior value nudged: still monotone, same first step, same total span, but not a constant step (the
		// boundary between the constant-delta and the delta column encodings). Only every other pair of cases carries
		// these series: they lie after all seeded rows and would otherwise fix the time range of every part.
		if (c/2)%2 == 0 && !enclosing {
			k := 4 + r.Intn(6)
			d := int64(1 + r.Intn(40))
			offs := make([]int64, k)
			for i := range offs {
				offs[i] = int64(i) * 2 * d
			}
			if j := 2 + r.Intn(k-3); r.Intn(2) == 0 {
				offs[j] += d
			} else {
				offs[j] -= d
			}
			for i := 0; i < k; i++ {
				uid++
				ts := win.Add(time.Hour).Add(time.Duration(offs[i]) * time.Millisecond)
				tags := make([]*modelv1.TagValue, len(c01Tags))
				tags[0] = tStr(fmt.Sprintf("c%d-nudged", c))
				tags[1] = tInt(uid)
				for j := 2; j < len(c01Tags); j++ {
					tags[j] = genTag(r, c01Tags[j].Type)
				}
				tags[2], tags[3] = tStr("const"), tInt(1000+offs[i])
				w := wrote{ts: ts.UnixNano()}
				for _, tv := range tags {
					w.tags = append(w.tags, canonTag(tv))
				}
				if kind == "measure" {
					fields := []*modelv1.FieldValue{fInt(10 + offs[i]), fFloat(float64(offs[i]) / 10), fStr("s"), fBin([]byte("b"))}
					for _, f := range fields {
						w.fields = append(w.fields, canonField(f))
					}
					pts = append(pts, &measurev1.DataPointValue{Timestamp: timestamppb.New(ts), TagFamilies: []*modelv1.TagFamilyForWrite{{Tags: tags}}, Fields: fields})
				} else {
					els = append(els, &streamv1.ElementValue{ElementId: fmt.Sprint("e", uid), Timestamp: timestamppb.New(ts), TagFamilies: []*modelv1.TagFamilyForWrite{{Tags: tags}}})
				}
				model[uid] = w
				uids = append(uids, uid)
			}
			s.Count("c01."+kind+".nudged_progression_series", 1)
			// and small series that share their timestamps with each other (2 or 3 points each, sorted next to each
			// other inside the part): equal timestamps of different series are different rows
			np := 2 + r.Intn(2)
			for _, name := range []string{"pair-a", "pair-b", "pair-c"} {
				for i := 0; i < np; i++ {
					uid++
					ts := win.Add(90 * time.Minute).Add(time.Duration(i) * 7 * time.Millisecond)
					tags := make([]*modelv1.TagValue, len(c01Tags))
					tags[0] = tStr(fmt.Sprintf("c%d-%s", c, name))
					tags[1] = tInt(uid)
					for j := 2; j < len(c01Tags); j++ {
						tags[j] = genTag(r, c01Tags[j].Type)
					}
					w := wrote{ts: ts.UnixNano()}
					for _, tv := range tags {
						w.tags = append(w.tags, canonTag(tv))
					}
					if kind == "measure" {
						fields := []*modelv1.FieldValue{fInt(genInt(r)), fFloat(genFloat(r)), fStr(genStr(r)), fBin([]byte(genStr(r)))}
						for _, f := range fields {
							w.fields = append(w.fields, canonField(f))
						}
						pts = append(pts, &measurev1.DataPointValue{Timestamp: timestamppb.New(ts), TagFamilies: []*modelv1.TagFamilyForWrite{{Tags: tags}}, Fields: fields})
					} else {
						els = append(els, &streamv1.ElementValue{ElementId: fmt.Sprint("e", uid), Timestamp: timestamppb.New(ts), TagFamilies: []*modelv1.TagFamilyForWrite{{Tags: tags}}})
					}
					model[uid] = w
					uids = append(uids, uid)
				}
			}
			s.Count("c01."+kind+".series_sharing_timestamps", 3)
		}
		if enclosing {
			for si := 0; si < 8; si++ {
				offs := []time.Duration{100 * time.Second, 120 * time.Second, 150 * time.Second, 200 * time.Second}
				if si%2 == 1 { // wide: starts before and ends after every narrow series
					offs = []time.Duration{time.Duration(50-si) * time.Second, 150 * time.Second, time.Duration(300+si) * time.Second}
				}
				for _, off := range offs {
					uid++
					ts := win.Add(off).Add(time.Duration(si) * time.Millisecond)
					tags := make([]*modelv1.TagValue, len(c01Tags))
					tags[0] = tStr(fmt.Sprintf("c%d-enc%d", c, si))
					tags[1] = tInt(uid)
					for j := 2; j < len(c01Tags); j++ {
						tags[j] = genTag(r, c01Tags[j].Type)
					}
					w := wrote{ts: ts.UnixNano()}
					for _, tv := range tags {
						w.tags = append(w.tags, canonTag(tv))
					}
					if kind == "measure" {
						fields := []*modelv1.FieldValue{fInt(genInt(r)), fFloat(genFloat(r)), fStr(genStr(r)), fBin([]byte(genStr(r)))}
						for _, f := range fields {
							w.fields = append(w.fields, canonField(f))
						}
						pts = append(pts, &measurev1.DataPointValue{Timestamp: timestamppb.New(ts), TagFamilies: []*modelv1.TagFamilyForWrite{{Tags: tags}}, Fields: fields})
					} else {
						els = append(els, &streamv1.ElementValue{ElementId: fmt.Sprint("e", uid), Timestamp: timestamppb.New(ts), TagFamilies: []*modelv1.TagFamilyForWrite{{Tags: tags}}})
					}
					model[uid] = w
					uids = append(uids, uid)
				}
			}
			s.Count("c01."+kind+".enclosing_series_batches", 1)
		}
		var acked []bool
		var werr error
		if kind == "measure" {
			acked, werr = sv.writeMeasure("gm", "m", pts)
		} else {
			acked, werr = sv.writeStream("gs", "st", els)
		}
		if werr != nil {
			s.Violation("c01:write-stream-error:"+kind, map[string]any{"case": c, "err": werr.Error()})
			continue
		}
		nAck := 0
		for i, ok := range acked {
			if !ok {
				delete(model, uids[i]) // a refused write is not part of the acknowledged set
			} else {
				nAck++
			}
		}
		s.Count("c01."+kind+".points_acked", int64(nAck))
		s.Count("c01."+kind+".points_refused", int64(len(acked)-nAck))
		tr := &modelv1.TimeRange{Begin: timestamppb.New(win), End: timestamppb.New(win.Add(2*time.Hour - time.Millisecond))}
		proj := &modelv1.TagProjection{TagFamilies: []*modelv1.TagProjection_TagFamily{{Name: "default", Tags: tagNames()}}}
		// phase 0: immediately after the ack; phase 1: after the memory parts had time to flush (and merge)
		for phase := 0; phase < 2; phase++ {
			if phase == 1 {
				time.Sleep(700 * time.Millisecond)
			}
			got := map[int64]wrote{}
			dup := int64(-1)
			if kind == "measure" {
				resp, err := sv.queryMeasure(&measurev1.QueryRequest{Groups: []string{"gm"}, Name: "m", TimeRange: tr, TagProjection: proj,
					FieldProjection: &measurev1.QueryRequest_FieldProjection{Names: []string{"iv", "fv", "sv", "bv"}}, Limit: uint32(n + 100)})
				if err != nil {
					s.Violation("c01:query-error:measure", map[string]any{"case": c, "phase": phase, "err": clipS(err.Error(), 500)})
					break
				}
				for _, dp := range resp.DataPoints {
					w := wrote{ts: dp.Timestamp.AsTime().UnixNano()}
					var u int64 = -1
					for _, tf := range dp.TagFamilies {
						byName := map[string]*modelv1.TagValue{}
						for _, tg := range tf.Tags {
							byName[tg.Key] = tg.Value
						}
						for _, name := range tagNames() {
							w.tags = append(w.tags, canonTag(byName[name]))
						}
						if v := byName["uid"]; v != nil {
							u = v.GetInt().GetValue()
						}
					}
					fb := map[string]*modelv1.FieldValue{}
					for _, f := range dp.Fields {
						fb[f.Name] = f.Value
					}
					for _, name := range []string{"iv", "fv", "sv", "bv"} {
						w.fields = append(w.fields, canonField(fb[name]))
					}
					if _, ok := got[u]; ok {
						dup = u
					}
					got[u] = w
				}
			} else {
				resp, err := sv.queryStream(&streamv1.QueryRequest{Groups: []string{"gs"}, Name: "st", TimeRange: tr, Projection: proj, Limit: uint32(n + 100)})
				if err != nil {
					s.Violation("c01:query-error:stream", map[string]any{"case": c, "phase": phase, "err": clipS(err.Error(), 500)})
					break
				}
				for _, e := range resp.Elements {
					w := wrote{ts: e.Timestamp.AsTime().UnixNano()}
					var u int64 = -1
					for _, tf := range e.TagFamilies {
						byName := map[string]*modelv1.TagValue{}
						for _, tg := range tf.Tags {
							byName[tg.Key] = tg.Value
						}
						for _, name := range tagNames() {
							w.tags = append(w.tags, canonTag(byName[name]))
						}
						if v := byName["uid"]; v != nil {
							u = v.GetInt().GetValue()
						}
					}
					if _, ok := got[u]; ok {
						dup = u
					}
					got[u] = w
				}
			}
			s.Count("c01."+kind+".rows_compared", int64(len(got)))
			ph := []string{"immediately", "after-flush"}[phase]
			if dup >= 0 {
				s.Violation("c01:"+kind+":row-returned-twice:"+ph, map[string]any{"case": c, "uid": dup})
			}
			for u, w := range model {
				g, ok := got[u]
				if !ok {
					s.Violation("c01:"+kind+":acknowledged-row-missing:"+ph, map[string]any{"case": c, "uid": u, "acked": len(model), "returned": len(got), "series": nSeries, "points": n})
					break
				}
				if g.ts != w.ts {
					s.Violation("c01:"+kind+":timestamp-differs:"+ph, map[string]any{"case": c, "uid": u, "wrote": w.ts, "read": g.ts})
					break
				}
				bad := false
				for j := range w.tags {
					if j < len(g.tags) && g.tags[j] != w.tags[j] {
						s.Violation("c01:"+kind+":tag:"+c01Tags[j].Name+":"+tagClass(w.tags[j], g.tags[j]), map[string]any{"case": c, "phase": ph, "uid": u, "wrote": clipS(w.tags[j], 200), "read": clipS(g.tags[j], 200)})
						bad = true
					}
				}
				for j := range w.fields {
					if j < len(g.fields) && g.fields[j] != w.fields[j] {
						name := []string{"iv", "fv", "sv", "bv"}[j]
						s.Violation("c01:"+kind+":field:"+name+":"+tagClass(w.fields[j], g.fields[j]), map[string]any{"case": c, "phase": ph, "uid": u, "wrote": clipS(w.fields[j], 200), "read": clipS(g.fields[j], 200)})
						bad = true
					}
				}
				if bad {
					break
				}
			}
			for u := range got {
				if _, ok := model[u]; !ok {
					s.Violation("c01:"+kind+":row-never-acknowledged-returned:"+ph, map[string]any{"case": c, "uid": u})
					break
				}
			}
		}
		// sub-windows whose edges are stored timestamps (part / primary-block / block time pruning): ids only
		if nAck > 1 {
			var tsList []int64
			byTS := map[int64][]int64{} // several series may share a timestamp
			for u, w := range model {
				if len(byTS[w.ts]) == 0 {
					tsList = append(tsList, w.ts)
				}
				byTS[w.ts] = append(byTS[w.ts], u)
			}
			sort.Slice(tsList, func(i, j int) bool { return tsList[i] < tsList[j] })
			// the directed series of the batch lie an hour and more after the seeded rows: the head/tail windows are
			// taken over the seeded rows (index < mainEnd), the random ones over everything
			mainEnd := sort.Search(len(tsList), func(i int) bool { return tsList[i] >= win.Add(time.Hour).UnixNano() })
			if mainEnd == 0 {
				mainEnd = len(tsList)
			}
			tails := min(mainEnd, 8)
			for k := 0; k < 6+2*tails; k++ {
				a, b := r.Intn(len(tsList)), r.Intn(len(tsList))
				switch {
				case k < tails: // every window that starts at one of the last few seeded points and runs to their end
					a, b = mainEnd-1-k, mainEnd-1
				case k < 2*tails: // and the mirror image at the head
					a, b = 0, k-tails
				case k == 2*tails: // from inside the seeded rows to the very end (across the directed series)
					a, b = r.Intn(mainEnd), len(tsList)-1
				}
				if a > b {
					a, b = b, a
				}
				wtr := &modelv1.TimeRange{Begin: timestamppb.New(time.Unix(0, tsList[a])), End: timestamppb.New(time.Unix(0, tsList[b]))}
				want := map[int64]bool{}
				for _, tsv := range tsList[a : b+1] {
					for _, u := range byTS[tsv] {
						want[u] = true
					}
				}
				got := map[int64]bool{}
				uproj := &modelv1.TagProjection{TagFamilies: []*modelv1.TagProjection_TagFamily{{Name: "default", Tags: []string{"uid"}}}}
				if kind == "measure" {
					resp, err := sv.queryMeasure(&measurev1.QueryRequest{Groups: []string{"gm"}, Name: "m", TimeRange: wtr, TagProjection: uproj, Limit: uint32(n + 100)})
					if err != nil {
						continue
					}
					for _, dp := range resp.DataPoints {
						for _, tf := range dp.TagFamilies {
							for _, tg := range tf.Tags {
								got[tg.Value.GetInt().GetValue()] = true
							}
						}
					}
				} else {
					resp, err := sv.queryStream(&streamv1.QueryRequest{Groups: []string{"gs"}, Name: "st", TimeRange: wtr, Projection: uproj, Limit: uint32(n + 100)})
					if err != nil {
						continue
					}
					for _, e := range resp.Elements {
						for _, tf := range e.TagFamilies {
							for _, tg := range tf.Tags {
								got[tg.Value.GetInt().GetValue()] = true
							}
						}
					}
				}
				s.Count("c01."+kind+".window_queries", 1)
				for u := range want {
					if !got[u] {
						s.Violation("c01:"+kind+":acknowledged-row-missing-in-time-window", map[string]any{"case": c, "uid": u, "window_ns": []int64{tsList[a], tsList[b]}, "row_ts": model[u].ts, "expected": len(want), "returned": len(got), "series": nSeries})
						break
					}
				}
				for u := range got {
					if !want[u] {
						s.Violation("c01:"+kind+":row-outside-time-window-returned", map[string]any{"case": c, "uid": u, "window_ns": []int64{tsList[a], tsList[b]}})
						break
					}
				}
			}
		}
		s.Case(fmt.Sprintf("%s/%d/%d/%d", kind, c, nSeries, n), nAck > 0 && len(valueKinds) >= 2)
		if c < 2 {
			s.Sample(map[string]any{"kind": kind, "series": nSeries, "points": n, "first_row_tags": model[uids[0]].tags, "first_row_fields": model[uids[0]].fields})
		}
	}
	indexedMeasureTags(t, s, sv)
	s.Done()
}

// indexedMeasureTags: tags of a measure that carry an index rule are not stored in the column files but
// in the series index; they must read back like any other tag. Tag values are constant per series, so the
// series-level storage is unambiguous.
func indexedMeasureTags(t *testing.T, s *verifh.Sink, sv *srv) {
	const g, name = "c01ix", "mix"
	if err := sv.group(g, commonv1.Catalog_CATALOG_MEASURE, 1, commonv1.IntervalRule_UNIT_DAY, 1, 3650); err != nil {
		t.Fatal(err)
	}
	tags := []*databasev1.TagSpec{
		{Name: "id", Type: databasev1.TagType_TAG_TYPE_STRING},
		{Name: "s", Type: databasev1.TagType_TAG_TYPE_STRING},
		{Name: "i", Type: databasev1.TagType_TAG_TYPE_INT},
		{Name: "sa", Type: databasev1.TagType_TAG_TYPE_STRING_ARRAY},
		{Name: "ia", Type: databasev1.TagType_TAG_TYPE_INT_ARRAY},
	}
	if err := sv.measure(&databasev1.Measure{Metadata: &commonv1.Metadata{Name: name, Group: g},
		TagFamilies: []*databasev1.TagFamilySpec{{Name: "default", Tags: tags}}, Fields: []*databasev1.FieldSpec{fieldSpec("v", databasev1.FieldType_FIELD_TYPE_INT)},
		Entity: &databasev1.Entity{TagNames: []string{"id"}}}); err != nil {
		t.Fatal(err)
	}
	var rules []string
	for _, tg := range []string{"s", "i", "sa", "ia"} {
		if err := sv.indexRule(g, "mix_"+tg, []string{tg}, databasev1.IndexRule_TYPE_INVERTED); err != nil {
			t.Fatal(err)
		}
		rules = append(rules, "mix_"+tg)
	}
	if err := sv.bind(g, "mix_b", rules, commonv1.Catalog_CATALOG_MEASURE, name); err != nil {
		t.Fatal(err)
	}
	time.Sleep(8 * time.Second) // index rules reach the write path asynchronously
	base := time.Date(2024, 5, 10, 0, 0, 0, 0, time.UTC)
	n := verifh.Pick(24, 200)
	want := map[string][]string{}
	var pts []*measurev1.DataPointValue
	for k := 0; k < n; k++ {
		r := verifh.Rand("c01ix", k)
		id := fmt.Sprintf("x%03d", k)
		tv := []*modelv1.TagValue{tStr(id), genTag(r, databasev1.TagType_TAG_TYPE_STRING), genTag(r, databasev1.TagType_TAG_TYPE_INT),
			genTag(r, databasev1.TagType_TAG_TYPE_STRING_ARRAY), genTag(r, databasev1.TagType_TAG_TYPE_INT_ARRAY)}
		var cs []string
		for _, v := range tv {
			cs = append(cs, canonTag(v))
		}
		want[id] = cs
		for j := 0; j < 2; j++ {
			pts = append(pts, &measurev1.DataPointValue{Timestamp: timestamppb.New(base.Add(time.Duration(k*2+j) * time.Second)),
				TagFamilies: []*modelv1.TagFamilyForWrite{{Tags: tv}}, Fields: []*modelv1.FieldValue{fInt(int64(k))}})
		}
	}
	if err := sv.waitWritableMeasure(g, name, func() *measurev1.DataPointValue {
		return &measurev1.DataPointValue{Timestamp: timestamppb.New(base.Add(-time.Hour)), TagFamilies: []*modelv1.TagFamilyForWrite{{Tags: []*modelv1.TagValue{tStr("sentinel"), tStr("z"), tInt(0), tStrArr([]string{"z"}), tIntArr([]int64{0})}}}, Fields: []*modelv1.FieldValue{fInt(0)}}
	}); err != nil {
		t.Fatal(err)
	}
	acks, err := sv.writeMeasure(g, name, pts)
	if err != nil {
		t.Fatal(err)
	}
	time.Sleep(1500 * time.Millisecond)
	for ti, tg := range []string{"s", "i", "sa", "ia"} {
		resp, qerr := sv.queryMeasure(&measurev1.QueryRequest{Groups: []string{g}, Name: name, TimeRange: tsRange(base, base.Add(time.Hour)), Limit: 100000,
			TagProjection:   &modelv1.TagProjection{TagFamilies: []*modelv1.TagProjection_TagFamily{{Name: "default", Tags: []string{"id", tg}}}},
			FieldProjection: &measurev1.QueryRequest_FieldProjection{Names: []string{"v"}}})
		s.Count("c01.measure.indexed_tag_projections", 1)
		if qerr != nil {
			s.Violation("c01:measure:indexed-tag:"+tg+":query-fails", map[string]any{"tag": tg, "type": tags[ti+1].Type.String(), "err": clipS(qerr.Error(), 300)})
			continue
		}
		seen := 0
		for _, dp := range resp.DataPoints {
			var id, got string
			for _, tf := range dp.TagFamilies {
				for _, x := range tf.Tags {
					if x.Key == "id" {
						id = x.Value.GetStr().GetValue()
					} else if x.Key == tg {
						got = canonTag(x.Value)
					}
				}
			}
			w, ok := want[id]
			if !ok {
				continue
			}
			seen++
			if got != w[ti+1] {
				s.Violation("c01:measure:indexed-tag:"+tg+":"+tagClass(w[ti+1], got), map[string]any{"tag": tg, "type": tags[ti+1].Type.String(), "series": id, "wrote": clipS(w[ti+1], 200), "read": clipS(got, 200)})
			}
		}
		nAck := 0
		for _, a := range acks {
			if a {
				nAck++
			}
		}
		if seen != nAck {
			s.Violation("c01:measure:indexed-tag:"+tg+":row-count", map[string]any{"acknowledged": nAck, "returned": seen})
		}
		s.Case("indexed-tag/"+tg, seen > 0)
	}
}

// tagClass names the kind of discrepancy (used in violation keys so that known findings stay specific).
func tagClass(w, g string) string {
	kind := func(x string) string { return strings.SplitN(x, ":", 2)[0] }
	switch {
	case w == "float:8000000000000000" && g == "float:0000000000000000":
		return "negative-zero-reads-positive-zero"
	case kind(w) == "float" && kind(g) == "float":
		return "float-bits-differ"
	case w == `str:""` && g == "null":
		return "empty-string-reads-null"
	case w == "bin:" && g == "null":
		return "empty-bytes-read-null"
	case w == "strarr:[]" && g == "null":
		return "empty-string-array-reads-null"
	case w == "intarr:[]" && g == "null":
		return "empty-int-array-reads-null"
	case w == "null":
		return "null-reads-" + kind(g)
	case g == "null":
		return kind(w) + "-reads-null"
	case kind(w) != kind(g):
		return kind(w) + "-reads-" + kind(g)
	}
	return kind(w) + "-value-differs"
}
