package verifsvc

// C09 (service level) — ordered results are globally sorted; offset/limit is a window of the full ordered result.

import (
	"fmt"
	"os"
	"sort"
	"strings"
	"testing"
	"time"

	"google.golang.org/protobuf/types/known/timestamppb"

	commonv1 "github.com/apache/skywalking-banyandb/api/proto/banyandb/common/v1"
	databasev1 "github.com/apache/skywalking-banyandb/api/proto/banyandb/database/v1"
	measurev1 "github.com/apache/skywalking-banyandb/api/proto/banyandb/measure/v1"
	modelv1 "github.com/apache/skywalking-banyandb/api/proto/banyandb/model/v1"
	streamv1 "github.com/apache/skywalking-banyandb/api/proto/banyandb/stream/v1"
	"github.com/apache/skywalking-banyandb/pkg/verifh"
)

type orderedRow struct {
	uid int64
	key int64
}

// selectOrdered returns (uid, key) in response order. key is the timestamp (ns) or the dur tag.
func (sv *srv) selectOrdered(b binding, byTag bool, sortDir modelv1.Sort, crit *modelv1.Criteria, tr *modelv1.TimeRange, offset, limit uint32) ([]orderedRow, error) {
	proj := &modelv1.TagProjection{TagFamilies: []*modelv1.TagProjection_TagFamily{{Name: "default", Tags: []string{"uid", "dur"}}}}
	ob := &modelv1.QueryOrder{Sort: sortDir}
	if byTag {
		ob.IndexRuleName = b.name + "_dur"
	}
	var out []orderedRow
	pick := func(ts time.Time, tfs []*modelv1.TagFamily) {
		row := orderedRow{key: ts.UnixNano()}
		for _, tf := range tfs {
			for _, tg := range tf.Tags {
				switch tg.Key {
				case "uid":
					row.uid = tg.Value.GetInt().GetValue()
				case "dur":
					if byTag {
						row.key = tg.Value.GetInt().GetValue()
					}
				}
			}
		}
		out = append(out, row)
	}
	if b.kind == "measure" {
		resp, err := sv.queryMeasure(&measurev1.QueryRequest{Groups: []string{"qm"}, Name: b.name, TimeRange: tr, Criteria: crit, TagProjection: proj, OrderBy: ob, Offset: offset, Limit: limit})
		if err != nil {
			return nil, err
		}
		for _, dp := range resp.DataPoints {
			pick(dp.Timestamp.AsTime(), dp.TagFamilies)
		}
		return out, nil
	}
	resp, err := sv.queryStream(&streamv1.QueryRequest{Groups: []string{"qs"}, Name: b.name, TimeRange: tr, Criteria: crit, Projection: proj, OrderBy: ob, Offset: offset, Limit: limit})
	if err != nil {
		return nil, err
	}
	for _, e := range resp.Elements {
		pick(e.Timestamp.AsTime(), e.TagFamilies)
	}
	return out, nil
}

// windowDiscrepancy compares a response with the window [offset, offset+limit) of the reference order.
// Tie-aware: rows with equal keys may come in any order and any of them may fill the window's edges.
func windowDiscrepancy(got []orderedRow, ref []orderedRow, asc bool, offset, limit int) string {
	s := append([]orderedRow(nil), ref...)
	sort.SliceStable(s, func(i, j int) bool {
		if asc {
			return s[i].key < s[j].key
		}
		return s[i].key > s[j].key
	})
	lo := min(offset, len(s))
	hi := min(offset+limit, len(s))
	want := s[lo:hi]
	if len(got) != len(want) {
		return fmt.Sprintf("length %d, the window [%d,%d) of %d ordered rows has %d", len(got), offset, offset+limit, len(s), len(want))
	}
	for i := 1; i < len(got); i++ {
		if (asc && got[i-1].key > got[i].key) || (!asc && got[i-1].key < got[i].key) {
			return fmt.Sprintf("not sorted at position %d: key %d then %d", i, got[i-1].key, got[i].key)
		}
	}
	if len(want) == 0 {
		return ""
	}
	keyOf := map[int64]int64{}
	for _, r := range ref {
		keyOf[r.uid] = r.key
	}
	seen := map[int64]bool{}
	for i, g := range got {
		k, ok := keyOf[g.uid]
		if !ok {
			return fmt.Sprintf("row uid=%d is not part of the selected rows", g.uid)
		}
		if k != g.key {
			return fmt.Sprintf("row uid=%d carries key %d, stored key is %d", g.uid, g.key, k)
		}
		if seen[g.uid] {
			return fmt.Sprintf("row uid=%d returned twice", g.uid)
		}
		seen[g.uid] = true
		if g.key != want[i].key { // position i must hold the i-th key of the reference order (ties interchangeable)
			return fmt.Sprintf("position %d holds key %d (uid %d), the reference window has key %d there", i, g.key, g.uid, want[i].key)
		}
	}
	return ""
}

func TestVerifC09(t *testing.T) {
	s := verifh.S()
	sv := boot(t)
	defer sv.stop()
	var uid int64
	base := time.Date(2024, 5, 10, 0, 0, 0, 0, time.UTC)
	r0 := verifh.Rand("c09data", 0)
	// skewed: most rows early, a few late, so some cursors run dry long before others
	rows := genDataset(r0, verifh.Pick(260, 1200), 6, 3, base, &uid, false)
	bs := []binding{c08Bindings[1], c08Bindings[3], c08Bindings[0]} // st_inv (has an index rule on dur to order by), m_none, st_none (criteria are evaluated after the scan)
	setupQueryWorld(t, sv, bs, rows)
	time.Sleep(1200 * time.Millisecond)
	more := genDataset(r0, 120, 6, 3, base.Add(3*time.Hour), &uid, false)
	writeRows(t, sv, bs, more)
	rows = append(rows, more...)
	// one series whose parts nest: a wide part W, a part N inside W's time range, a part C after N but still inside W;
	// every batch is flushed to a part of its own (the server flushes 200 ms after a write)
	at := func(sec int) time.Time { return base.Add(5*time.Hour + time.Duration(sec)*time.Second) }
	for _, secs := range [][]int{{1, 100, 30, 55}, {10, 20}, {40, 70}, {60, 65}} {
		var batch []qrow
		for _, sec := range secs {
			uid++
			batch = append(batch, qrow{id: "np0", uid: uid, svc: "np", n: int64(sec), dur: int64(7000 + sec), labels: []string{"np"}, codes: []int64{int64(sec)}, ts: at(sec), v: int64(sec)})
		}
		time.Sleep(400 * time.Millisecond)
		writeRows(t, sv, bs, batch)
		rows = append(rows, batch...)
	}
	time.Sleep(400 * time.Millisecond)
	n := len(rows)
	limits := []int{0, 1, 2, 7, n - 1, n, n + 1}
	offsets := []int{0, 1, 5, n - 1, n, n + 1}
	lo, hi := base.Add(-time.Hour), base.Add(6*24*time.Hour)
	nQ := verifh.Pick(140, 2500)
	for i := 0; i < nQ; i++ {
		r := verifh.Rand("c09q", i)
		b := bs[r.Intn(len(bs))]
		byTag := b.name == "st_inv" && r.Intn(2) == 0
		asc := r.Intn(2) == 0
		dir := modelv1.Sort_SORT_DESC
		if asc {
			dir = modelv1.Sort_SORT_ASC
		}
		limit, offset := limits[r.Intn(len(limits))], offsets[r.Intn(len(offsets))]
		if r.Intn(3) == 0 {
			limit, offset = r.Intn(n), r.Intn(n)
		}
		var tr *tree
		data := rows
		if b.kind == "measure" {
			data = seriesConstant(rows)
		}
		sel := data
		if b.kind == "stream" && i%7 == 3 { // the series with nested parts alone
			tr = &tree{isLeaf: true, c: &cond{tag: "id", op: modelv1.Condition_BINARY_OP_EQ, str: "np0", kind: "str"}}
			sel = nil
			for _, q := range data {
				if tr.eval(q) {
					sel = append(sel, q)
				}
			}
			s.Count("c09.queries.nested_parts_series", 1)
		} else if b.kind == "stream" && r.Intn(3) == 0 {
			tr = genTree(r, 1)
			sel = nil
			for _, q := range data {
				if tr.eval(q) {
					sel = append(sel, q)
				}
			}
		}
		ref := make([]orderedRow, len(sel))
		for j, q := range sel {
			ref[j] = orderedRow{uid: q.uid, key: q.ts.UnixNano()}
			if byTag {
				ref[j].key = q.dur
			}
		}
		effLimit := limit
		if limit == 0 { // the documented default limits
			effLimit = 100
			if b.kind == "stream" {
				effLimit = 20
			}
		}
		var crit *modelv1.Criteria
		desc := fmt.Sprintf("%s order=%s dir=%v offset=%d limit=%d", b.name, map[bool]string{true: "dur", false: "time"}[byTag], dir, offset, limit)
		if tr != nil {
			crit = tr.proto()
			desc += " where " + tr.String()
		}
		got, err := sv.selectOrdered(b, byTag, dir, crit, tsRange(lo, hi), uint32(offset), uint32(limit))
		s.Case(desc, len(ref) > 1)
		s.Count("c09.queries."+b.kind, 1)
		if i < 2 {
			s.Sample(map[string]any{"query": desc, "selected_rows": len(ref)})
		}
		if err != nil {
			s.Violation("c09:query-error:"+b.kind, map[string]any{"query": desc, "err": clipS(err.Error(), 300)})
			continue
		}
		if d := windowDiscrepancy(got, ref, asc, offset, effLimit); d != "" {
			kind := "time"
			if byTag {
				kind = "tag"
			}
			// a window that is merely cut short (what did come back is the start of the right window) on a stream
			// whose criteria are evaluated after the scan: one specific defect, keyed apart from everything else
			if b.name == "st_none" && tr != nil && strings.HasPrefix(d, "length ") && windowDiscrepancy(got, ref, asc, offset, len(got)) == "" {
				s.Violation("c09:stream:criteria-evaluated-after-scan:window-cut-short", map[string]any{"query": desc, "discrepancy": d, "selected_rows": len(ref), "returned": len(got)})
				continue
			}
			// the same defect on the row engine: every segment caps its own scan before the criteria are applied, so
			// the answer is sorted and made of selected rows only, but leaves some of the window's rows out
			if b.name == "st_none" && tr != nil && os.Getenv("VERIF_ROW_ENGINE") != "" && !byTag {
				sorted, selected := true, true
				keyOf := map[int64]int64{}
				for _, q := range ref {
					keyOf[q.uid] = q.key
				}
				for j, g := range got {
					k, ok := keyOf[g.uid]
					selected = selected && ok && k == g.key
					if j > 0 && ((asc && got[j-1].key > g.key) || (!asc && got[j-1].key < g.key)) {
						sorted = false
					}
				}
				if sorted && selected {
					s.Violation("c09:stream:criteria-evaluated-after-scan:window-has-holes", map[string]any{"query": desc, "discrepancy": d, "selected_rows": len(ref), "returned": len(got)})
					continue
				}
			}
			s.Violation(fmt.Sprintf("c09:%s:order-by-%s:%s", b.kind, kind, map[bool]string{true: "asc", false: "desc"}[asc]), map[string]any{"query": desc, "discrepancy": d, "selected_rows": len(ref), "returned": len(got)})
		}
	}
	multiGroup(t, s, sv, base)
	indexModeOrder(t, s, sv, base)
	// the largest limit together with an offset (sum exceeds 32 bits)
	for _, b := range bs {
		for _, off := range []int{1, 3} {
			data := rows
			if b.kind == "measure" {
				data = seriesConstant(rows)
			}
			ref := make([]orderedRow, len(data))
			for j, q := range data {
				ref[j] = orderedRow{uid: q.uid, key: q.ts.UnixNano()}
			}
			got, err := sv.selectOrdered(b, false, modelv1.Sort_SORT_ASC, nil, tsRange(lo, hi), uint32(off), ^uint32(0))
			desc := fmt.Sprintf("%s order=time asc offset=%d limit=4294967295", b.name, off)
			s.Case(desc, true)
			s.Count("c09.queries.max_limit", 1)
			if err != nil {
				s.Violation("c09:query-error:max-limit:"+b.kind, map[string]any{"query": desc, "err": clipS(err.Error(), 300)})
				continue
			}
			if d := windowDiscrepancy(got, ref, true, off, 1<<32-1); d != "" {
				s.Violation("c09:"+b.kind+":max-limit-with-offset", map[string]any{"query": desc, "discrepancy": d, "returned": len(got), "stored": len(ref)})
			}
		}
	}
	s.Done()
}

// multiGroup: one ordered query over 3-4 groups; the per-group results are k-way merged by the coordinator.
// indexModeOrder: an index-mode measure (tags only, kept in the series index) ordered by an indexed tag over three
// day segments, the segments holding different, overlapping subsets of the series. What one series contributes across segments is the engine's
// business; whatever comes back must be sorted by the ordered tag in the requested direction, every row must be a
// written one, and no row may come back twice.
func indexModeOrder(t *testing.T, s *verifh.Sink, sv *srv, base time.Time) {
	must := func(err error) {
		if err != nil {
			t.Fatalf("setup: %v", err)
		}
	}
	const g, name = "qi", "mix0"
	must(sv.group(g, commonv1.Catalog_CATALOG_MEASURE, 2, commonv1.IntervalRule_UNIT_DAY, 1, 36500))
	tags := []*databasev1.TagSpec{{Name: "id", Type: databasev1.TagType_TAG_TYPE_STRING}, {Name: "uid", Type: databasev1.TagType_TAG_TYPE_INT}, {Name: "dur", Type: databasev1.TagType_TAG_TYPE_INT}}
	must(sv.measure(&databasev1.Measure{Metadata: &commonv1.Metadata{Name: name, Group: g}, TagFamilies: []*databasev1.TagFamilySpec{{Name: "default", Tags: tags}},
		Entity: &databasev1.Entity{TagNames: []string{"id"}}, IndexMode: true}))
	must(sv.indexRule(g, name+"_dur", []string{"dur"}, databasev1.IndexRule_TYPE_INVERTED))
	must(sv.bind(g, name+"_binding", []string{name + "_dur"}, commonv1.Catalog_CATALOG_MEASURE, name))
	time.Sleep(8 * time.Second)
	point := func(id string, uid, dur int64, ts time.Time) *measurev1.DataPointValue {
		return &measurev1.DataPointValue{Timestamp: timestamppb.New(ts), TagFamilies: []*modelv1.TagFamilyForWrite{{Tags: []*modelv1.TagValue{tStr(id), tInt(uid), tInt(dur)}}}}
	}
	must(sv.waitWritableMeasure(g, name, func() *measurev1.DataPointValue {
		return point("sentinel", -1, -1, time.Date(2020, 1, 1, 0, 0, 0, 0, time.UTC))
	}))
	r := verifh.Rand("c09idx", 0)
	durOf := map[int64]int64{}
	var uid int64 = 1 << 30
	var pts []*measurev1.DataPointValue
	nSeries := 14
	durs := r.Perm(nSeries)
	for d := 0; d < 3; d++ {
		for i := 0; i < nSeries; i++ {
			if d != i%3 && r.Intn(5) < 2 {
				continue // the segments hold different subsets of the series (every series is in at least one)
			}
			uid++
			dur := int64(100 * (durs[i] + 1)) // constant per series, distinct between series
			durOf[uid] = dur
			pts = append(pts, point(fmt.Sprintf("x%02d", i), uid, dur, base.Add(time.Duration(d)*24*time.Hour+time.Duration(i)*time.Second)))
		}
	}
	acked, err := sv.writeMeasure(g, name, pts)
	if err != nil || countTrue(acked) != len(pts) {
		t.Fatalf("setup: index-mode write: %v", err)
	}
	time.Sleep(1500 * time.Millisecond)
	proj := &modelv1.TagProjection{TagFamilies: []*modelv1.TagProjection_TagFamily{{Name: "default", Tags: []string{"id", "uid", "dur"}}}}
	for q := 0; q < verifh.Pick(30, 300); q++ {
		rr := verifh.Rand("c09idxq", q)
		asc := rr.Intn(2) == 0
		dir := modelv1.Sort_SORT_DESC
		if asc {
			dir = modelv1.Sort_SORT_ASC
		}
		days := 1 + rr.Intn(3)
		first := rr.Intn(4 - days)
		lo, hi := base.Add(time.Duration(first)*24*time.Hour-time.Hour), base.Add(time.Duration(first+days)*24*time.Hour-time.Hour)
		limit, offset := []uint32{0, 3, 100}[rr.Intn(3)], []uint32{0, 1, 5}[rr.Intn(3)]
		desc := fmt.Sprintf("index-mode order=dur dir=%v days=%d..%d offset=%d limit=%d", dir, first, first+days-1, offset, limit)
		resp, err := sv.queryMeasure(&measurev1.QueryRequest{Groups: []string{g}, Name: name, TimeRange: tsRange(lo, hi), TagProjection: proj,
			OrderBy: &modelv1.QueryOrder{IndexRuleName: name + "_dur", Sort: dir}, Limit: limit, Offset: offset})
		s.Case(desc, days > 1)
		s.Count("c09.queries.index_mode_measure", 1)
		if err != nil {
			s.Violation("c09:index-mode:query-error", map[string]any{"query": desc, "err": clipS(err.Error(), 300)})
			continue
		}
		var keys []int64
		seen := map[int64]bool{}
		bad := ""
		for i, dp := range resp.DataPoints {
			var u, d int64 = -1, -1
			for _, tf := range dp.TagFamilies {
				for _, tg := range tf.Tags {
					switch tg.Key {
					case "uid":
						u = tg.Value.GetInt().GetValue()
					case "dur":
						d = tg.Value.GetInt().GetValue()
					}
				}
			}
			keys = append(keys, d)
			switch want, ok := durOf[u]; {
			case !ok || want != d:
				bad = fmt.Sprintf("position %d: uid %d with dur %d was never written", i, u, d)
			case seen[u]:
				bad = fmt.Sprintf("position %d: uid %d returned twice", i, u)
			case i > 0 && ((asc && keys[i-1] > d) || (!asc && keys[i-1] < d)):
				bad = fmt.Sprintf("not sorted at position %d: %d then %d", i, keys[i-1], d)
			}
			seen[u] = true
			if bad != "" {
				break
			}
		}
		if q < 1 {
			s.Sample(map[string]any{"query": desc, "returned_keys": keys})
		}
		if bad != "" {
			s.Violation("c09:index-mode:order-by-tag", map[string]any{"query": desc, "discrepancy": bad, "returned_keys": fmt.Sprint(keys)})
		}
	}
}

func multiGroup(t *testing.T, s *verifh.Sink, sv *srv, base time.Time) {
	must := func(err error) {
		if err != nil {
			t.Fatalf("setup: %v", err)
		}
	}
	groups := []string{"mg1", "mg2", "mg3", "mg4"}
	var uid int64 = 1 << 20
	r := verifh.Rand("c09mg", 0)
	var all [][]qrow
	for gi, g := range groups {
		must(sv.group(g, commonv1.Catalog_CATALOG_STREAM, 1, commonv1.IntervalRule_UNIT_DAY, 1, 36500))
		must(sv.stream(&databasev1.Stream{Metadata: &commonv1.Metadata{Name: "mgs", Group: g},
			TagFamilies: []*databasev1.TagFamilySpec{{Name: "default", Tags: qTags}}, Entity: &databasev1.Entity{TagNames: []string{"id"}}}))
		must(sv.waitWritableStream(g, "mgs", func() *streamv1.ElementValue {
			q := qrow{id: "sentinel", uid: -1, svc: "s", labels: []string{"s"}, codes: []int64{-9}, ts: time.Date(2020, 1, 1, 0, 0, 0, 0, time.UTC)}
			return &streamv1.ElementValue{ElementId: "sentinel", Timestamp: timestamppb.New(q.ts), TagFamilies: []*modelv1.TagFamilyForWrite{{Tags: q.writeTags()}}}
		}))
		// group sizes differ a lot, so some inputs of the merge run dry early: 3, 40, 9, 1 rows
		n := []int{3, 40, 9, 1}[gi]
		rows := genDataset(r, n, 2, 1, base, &uid, false)
		els := make([]*streamv1.ElementValue, len(rows))
		for i, q := range rows {
			els[i] = &streamv1.ElementValue{ElementId: fmt.Sprint("e", q.uid), Timestamp: timestamppb.New(q.ts), TagFamilies: []*modelv1.TagFamilyForWrite{{Tags: q.writeTags()}}}
		}
		acked, err := sv.writeStream(g, "mgs", els)
		if err != nil || countTrue(acked) != len(els) {
			t.Fatalf("setup: multi-group write: %v", err)
		}
		all = append(all, rows)
	}
	proj := &modelv1.TagProjection{TagFamilies: []*modelv1.TagProjection_TagFamily{{Name: "default", Tags: []string{"uid"}}}}
	for q := 0; q < verifh.Pick(40, 400); q++ {
		rr := verifh.Rand("c09mgq", q)
		// a subset of >=2 groups in a seeded order
		perm := rr.Perm(len(groups))
		k := 2 + rr.Intn(len(groups)-1)
		var gs []string
		var ref []orderedRow
		for _, gi := range perm[:k] {
			gs = append(gs, groups[gi])
			for _, row := range all[gi] {
				ref = append(ref, orderedRow{uid: row.uid, key: row.ts.UnixNano()})
			}
		}
		asc := rr.Intn(2) == 0
		dir := modelv1.Sort_SORT_DESC
		if asc {
			dir = modelv1.Sort_SORT_ASC
		}
		offset, limit := []int{0, 1, 3}[rr.Intn(3)], []int{1, 5, 100}[rr.Intn(3)]
		resp, err := sv.queryStream(&streamv1.QueryRequest{Groups: gs, Name: "mgs", TimeRange: tsRange(base.Add(-time.Hour), base.Add(48*time.Hour)), Projection: proj,
			OrderBy: &modelv1.QueryOrder{Sort: dir}, Offset: uint32(offset), Limit: uint32(limit)})
		desc := fmt.Sprintf("groups=%v order=time dir=%v offset=%d limit=%d", gs, dir, offset, limit)
		s.Case(desc, true)
		s.Count("c09.queries.multi_group", 1)
		if err != nil {
			s.Violation("c09:query-error:multi-group", map[string]any{"query": desc, "err": clipS(err.Error(), 300)})
			continue
		}
		var got []orderedRow
		for _, e := range resp.Elements {
			row := orderedRow{key: e.Timestamp.AsTime().UnixNano()}
			for _, tf := range e.TagFamilies {
				for _, tg := range tf.Tags {
					row.uid = tg.Value.GetInt().GetValue()
				}
			}
			got = append(got, row)
		}
		if d := windowDiscrepancy(got, ref, asc, offset, limit); d != "" {
			s.Violation("c09:stream:multi-group:"+map[bool]string{true: "asc", false: "desc"}[asc], map[string]any{"query": desc, "discrepancy": d, "returned": len(got), "stored": len(ref)})
		}
	}
}
