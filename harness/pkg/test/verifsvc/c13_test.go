package verifsvc

// Trace service unit, shared by C01 (acknowledged spans are returned exactly as written) and C13 (a query by
// trace id returns every acknowledged span of the trace whatever its arrival history).
// Spans of each trace arrive in seeded order over several write streams separated by more than the flush
// timeout (so they land in different parts), some traces have spans in two day segments; after every stream
// and after a settle period (flushes and merges keep running) every trace is queried by id and compared with
// the acknowledged spans: ids, payload bytes and tag values. An ordered query through the tree index must
// only return traces that have visible spans.

import (
	"fmt"
	"io"
	"sort"
	"testing"
	"time"

	"google.golang.org/protobuf/types/known/timestamppb"

	commonv1 "github.com/apache/skywalking-banyandb/api/proto/banyandb/common/v1"
	databasev1 "github.com/apache/skywalking-banyandb/api/proto/banyandb/database/v1"
	modelv1 "github.com/apache/skywalking-banyandb/api/proto/banyandb/model/v1"
	tracev1 "github.com/apache/skywalking-banyandb/api/proto/banyandb/trace/v1"
	"github.com/apache/skywalking-banyandb/pkg/verifh"
)

type vspan struct {
	trace, id, svc string
	payload        []byte
	ts             time.Time
	dur            int64
	version        uint64
}

func (sv *srv) writeSpans(group, name string, spans []*vspan) (map[uint64]bool, error) {
	ctx, cancel := ctxT()
	defer cancel()
	ws, err := tracev1.NewTraceServiceClient(sv.conn).Write(ctx)
	if err != nil {
		return nil, err
	}
	acked := map[uint64]bool{}
	done := make(chan error, 1)
	go func() {
		for {
			resp, rerr := ws.Recv()
			if rerr == io.EOF {
				done <- nil
				return
			}
			if rerr != nil {
				done <- rerr
				return
			}
			if resp.Status == modelv1.Status_STATUS_SUCCEED.String() {
				acked[resp.Version] = true
			}
		}
	}()
	for _, sp := range spans {
		req := &tracev1.WriteRequest{Metadata: &commonv1.Metadata{Group: group, Name: name}, Version: sp.version, Span: sp.payload,
			Tags: []*modelv1.TagValue{tStr(sp.trace), tStr(sp.id), {Value: &modelv1.TagValue_Timestamp{Timestamp: timestamppb.New(sp.ts)}}, tStr(sp.svc), tInt(sp.dur)}}
		if serr := ws.Send(req); serr != nil {
			return nil, serr
		}
	}
	if cerr := ws.CloseSend(); cerr != nil {
		return nil, cerr
	}
	if derr := <-done; derr != nil {
		return nil, derr
	}
	return acked, nil
}

func TestVerifTraceSvc(t *testing.T) {
	s := verifh.S()
	sv := boot(t)
	defer sv.stop()
	const g, name = "tg", "tr"
	if err := sv.group(g, commonv1.Catalog_CATALOG_TRACE, 2, commonv1.IntervalRule_UNIT_DAY, 1, 36500); err != nil {
		t.Fatal(err)
	}
	{
		ctx, cancel := ctxT()
		_, err := databasev1.NewTraceRegistryServiceClient(sv.conn).Create(ctx, &databasev1.TraceRegistryServiceCreateRequest{Trace: &databasev1.Trace{
			Metadata: &commonv1.Metadata{Group: g, Name: name},
			Tags: []*databasev1.TraceTagSpec{{Name: "trace_id", Type: databasev1.TagType_TAG_TYPE_STRING}, {Name: "span_id", Type: databasev1.TagType_TAG_TYPE_STRING},
				{Name: "ts", Type: databasev1.TagType_TAG_TYPE_TIMESTAMP}, {Name: "svc", Type: databasev1.TagType_TAG_TYPE_STRING}, {Name: "dur", Type: databasev1.TagType_TAG_TYPE_INT}},
			TraceIdTagName: "trace_id", SpanIdTagName: "span_id", TimestampTagName: "ts"}})
		cancel()
		if err != nil {
			t.Fatal(err)
		}
	}
	if err := sv.indexRule(g, "tr_dur", []string{"svc", "dur"}, databasev1.IndexRule_TYPE_TREE); err != nil {
		t.Fatal(err)
	}
	if err := sv.bind(g, "tr_b", []string{"tr_dur"}, commonv1.Catalog_CATALOG_TRACE, name); err != nil {
		t.Fatal(err)
	}
	time.Sleep(8 * time.Second)
	base := time.Date(2024, 5, 10, 0, 0, 0, 0, time.UTC)
	lo, hi := base.Add(-time.Hour), base.Add(4*24*time.Hour)
	r := verifh.Rand("tracesvc", 0)
	nTraces := verifh.Pick(60, 600)
	// the plan: every trace's spans, then dealt over the batches in seeded order
	var version uint64 = 1
	var all []*vspan
	for ti := 0; ti < nTraces; ti++ {
		tid := fmt.Sprintf("t-%04d", ti)
		twoDays := r.Intn(4) == 0
		for k := 0; k <= r.Intn(10); k++ {
			day := ti % 3
			if twoDays && k%2 == 1 {
				day = (day + 1) % 3
			}
			version++
			all = append(all, &vspan{trace: tid, id: fmt.Sprintf("%s-s%02d", tid, k), svc: fmt.Sprintf("svc-%d", ti%4), dur: int64(r.Intn(1000)),
				ts: base.Add(time.Duration(day)*24*time.Hour + time.Duration(r.Intn(3600*20))*time.Second), version: version,
				payload: []byte(fmt.Sprintf("payload of %s span %d \x00\xff %d", tid, k, r.Int63()))})
		}
	}
	r.Shuffle(len(all), func(a, b int) { all[a], all[b] = all[b], all[a] })
	nBatches := 5 + r.Intn(4)
	// the table must accept writes before the first batch counts: probe with a sentinel trace
	for i := 0; i < 60; i++ {
		acks, err := sv.writeSpans(g, name, []*vspan{{trace: "sentinel", id: fmt.Sprint("sentinel-", i), svc: "s", ts: base, version: 1, payload: []byte("x")}})
		if err == nil && len(acks) == 1 {
			break
		}
		time.Sleep(500 * time.Millisecond)
	}
	acked := map[string]map[string]*vspan{}
	queryTrace := func(tid string) (map[string]*tracev1.Span, int, error) {
		ctx, cancel := ctxT()
		defer cancel()
		resp, err := tracev1.NewTraceServiceClient(sv.conn).Query(ctx, &tracev1.QueryRequest{Groups: []string{g}, Name: name, TimeRange: tsRange(lo, hi),
			TagProjection: []string{"trace_id", "span_id", "ts", "svc", "dur"},
			Criteria:      &modelv1.Criteria{Exp: &modelv1.Criteria_Condition{Condition: &modelv1.Condition{Name: "trace_id", Op: modelv1.Condition_BINARY_OP_EQ, Value: tStr(tid)}}}})
		if err != nil {
			return nil, 0, err
		}
		out := map[string]*tracev1.Span{}
		dups := 0
		for _, tr := range resp.Traces {
			if tr.TraceId != tid {
				return nil, 0, fmt.Errorf("asked for trace %s, got trace %s", tid, tr.TraceId)
			}
			for _, sp := range tr.Spans {
				if _, seen := out[sp.SpanId]; seen {
					dups++
				}
				out[sp.SpanId] = sp
			}
		}
		return out, dups, nil
	}
	judge := func(stage string, tids []string) {
		for _, tid := range tids {
			got, dups, err := queryTrace(tid)
			s.Count("tracesvc.trace_queries", 1)
			d := func(m map[string]any) map[string]any {
				m["stage"], m["trace"], m["spans_acknowledged"], m["spans_returned"] = stage, tid, len(acked[tid]), len(got)
				return m
			}
			if err != nil {
				s.Violation("c13:svc:query-by-trace-id-fails", d(map[string]any{"err": clipS(err.Error(), 300)}))
				continue
			}
			if dups > 0 {
				s.Violation("c13:svc:span-returned-twice", d(map[string]any{"duplicates": dups}))
			}
			var missing []string
			for id, w := range acked[tid] {
				sp, ok := got[id]
				if !ok {
					missing = append(missing, id)
					continue
				}
				if string(sp.Span) != string(w.payload) {
					s.Violation("c01:trace:span-payload-differs", d(map[string]any{"span": id, "wrote": clipS(fmt.Sprintf("%q", w.payload), 120), "read": clipS(fmt.Sprintf("%q", sp.Span), 120)}))
				}
				tags := map[string]*modelv1.TagValue{}
				for _, tg := range sp.Tags {
					tags[tg.Key] = tg.Value
				}
				if tags["svc"].GetStr().GetValue() != w.svc || tags["dur"].GetInt().GetValue() != w.dur || !tags["ts"].GetTimestamp().AsTime().Equal(w.ts) {
					s.Violation("c01:trace:span-tags-differ", d(map[string]any{"span": id, "wrote": fmt.Sprint(w.svc, " ", w.dur, " ", w.ts.UnixNano()), "read": clipS(fmt.Sprint(tags), 300)}))
				}
			}
			sort.Strings(missing)
			if len(missing) > 0 {
				s.Violation("c13:svc:acknowledged-spans-missing-from-the-trace", d(map[string]any{"missing": missing[:min(len(missing), 6)]}))
			}
			for id := range got {
				if _, ok := acked[tid][id]; !ok {
					s.Violation("c13:svc:span-nobody-acknowledged", d(map[string]any{"span": id}))
				}
			}
		}
	}
	per := (len(all) + nBatches - 1) / nBatches
	for b := 0; b < nBatches; b++ {
		chunk := all[b*per : min(len(all), (b+1)*per)]
		if len(chunk) == 0 {
			continue
		}
		acks, err := sv.writeSpans(g, name, chunk)
		if err != nil {
			s.Violation("c01:trace:write-stream-fails", map[string]any{"batch": b, "err": clipS(err.Error(), 300)})
			continue
		}
		touched := map[string]bool{}
		for _, sp := range chunk {
			if acks[sp.version] {
				if acked[sp.trace] == nil {
					acked[sp.trace] = map[string]*vspan{}
				}
				acked[sp.trace][sp.id] = sp
				touched[sp.trace] = true
				s.Count("tracesvc.spans_acknowledged", 1)
			} else {
				s.Count("tracesvc.spans_refused", 1)
			}
		}
		var tids []string
		for tid := range touched {
			tids = append(tids, tid)
		}
		sort.Strings(tids)
		judge(fmt.Sprintf("right after batch %d", b), tids[:min(len(tids), 25)])
		time.Sleep(450 * time.Millisecond) // longer than the flush timeout: the next batch lands in another part
	}
	time.Sleep(1500 * time.Millisecond)
	var tids []string
	multi := 0
	for tid, sp := range acked {
		tids = append(tids, tid)
		if len(sp) > 1 {
			multi++
		}
	}
	sort.Strings(tids)
	judge("after settling", tids)
	// ordered query through the tree index: every trace it returns must have visible spans of its own
	for _, sortDir := range []modelv1.Sort{modelv1.Sort_SORT_ASC, modelv1.Sort_SORT_DESC} {
		ctx, cancel := ctxT()
		resp, err := tracev1.NewTraceServiceClient(sv.conn).Query(ctx, &tracev1.QueryRequest{Groups: []string{g}, Name: name, TimeRange: tsRange(lo, hi), Limit: 1000,
			TagProjection: []string{"trace_id", "span_id", "dur"}, OrderBy: &modelv1.QueryOrder{IndexRuleName: "tr_dur", Sort: sortDir},
			Criteria: &modelv1.Criteria{Exp: &modelv1.Criteria_Condition{Condition: &modelv1.Condition{Name: "svc", Op: modelv1.Condition_BINARY_OP_EQ, Value: tStr("svc-1")}}}})
		cancel()
		s.Count("tracesvc.ordered_queries", 1)
		if err != nil {
			s.Violation("c13:svc:ordered-query-fails", map[string]any{"err": clipS(err.Error(), 300)})
			continue
		}
		seen := map[string]bool{}
		for _, tr := range resp.Traces {
			if len(tr.Spans) == 0 {
				s.Violation("c13:svc:ordered-query-returns-a-trace-without-spans", map[string]any{"trace": tr.TraceId})
			}
			if seen[tr.TraceId] {
				s.Violation("c13:svc:ordered-query-returns-a-trace-twice", map[string]any{"trace": tr.TraceId})
			}
			seen[tr.TraceId] = true
			for _, sp := range tr.Spans {
				if _, ok := acked[tr.TraceId][sp.SpanId]; !ok && tr.TraceId != "sentinel" {
					s.Violation("c13:svc:ordered-query-returns-a-foreign-span", map[string]any{"trace": tr.TraceId, "span": sp.SpanId})
				}
			}
		}
		s.Count("tracesvc.traces_returned_by_ordered_queries", int64(len(resp.Traces)))
	}
	for _, tid := range tids {
		s.Case(fmt.Sprint(tid, len(acked[tid])), len(acked[tid]) > 1)
	}
	s.Sample(map[string]any{"traces": len(tids), "traces_with_several_spans": multi, "batches": nBatches, "spans": len(all)})
	s.Done()
}
