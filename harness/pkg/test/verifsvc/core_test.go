// Package verifsvc holds the black-box service harness: an in-process standalone server driven over gRPC.
package verifsvc

import (
	"context"
	"fmt"
	"io"
	"math"
	"os"
	"sort"
	"strings"
	"sync/atomic"
	"testing"
	"time"

	"github.com/onsi/gomega"
	"google.golang.org/grpc"
	"google.golang.org/grpc/credentials/insecure"
	"google.golang.org/protobuf/types/known/timestamppb"

	commonv1 "github.com/apache/skywalking-banyandb/api/proto/banyandb/common/v1"
	databasev1 "github.com/apache/skywalking-banyandb/api/proto/banyandb/database/v1"
	measurev1 "github.com/apache/skywalking-banyandb/api/proto/banyandb/measure/v1"
	modelv1 "github.com/apache/skywalking-banyandb/api/proto/banyandb/model/v1"
	streamv1 "github.com/apache/skywalking-banyandb/api/proto/banyandb/stream/v1"
	"github.com/apache/skywalking-banyandb/pkg/test/setup"
)

type srv struct {
	conn *grpc.ClientConn
	stop func()
	addr string
	mid  atomic.Uint64
	// replicas is the replica count given to groups created through group() (0 on a standalone)
	replicas uint32
	// alt is a second liaison of the same cluster that runs the other query engine (row-based when the main liaison
	// is vectorized): the coordinator-side plans of both engines are then exercised over the same data nodes
	alt *srv
}

// boot starts a standalone server in this process. Any gomega failure inside the setup helpers panics.
func boot(t *testing.T, flags ...string) *srv {
	gomega.RegisterFailHandler(func(message string, _ ...int) { panic("setup: " + message) })
	ff := append([]string{"--measure-flush-timeout=200ms", "--stream-flush-timeout=200ms", "--trace-flush-timeout=200ms"}, flags...)
	if os.Getenv("VERIF_ROW_ENGINE") != "" && len(flags) == 0 { // unit variant: the same workload against the row-based query engine
		ff = append(ff, "--measure-vectorized-enabled=false", "--stream-vectorized-enabled=false")
	}
	addr, _, stop := setup.EmptyStandalone(nil, ff...)
	conn, err := grpc.NewClient(addr, grpc.WithTransportCredentials(insecure.NewCredentials()),
		grpc.WithDefaultCallOptions(grpc.MaxCallRecvMsgSize(256<<20), grpc.MaxCallSendMsgSize(256<<20)))
	if err != nil {
		t.Fatal(err)
	}
	return &srv{addr: addr, conn: conn, stop: func() { conn.Close(); stop() }}
}

// bootCluster starts nData data nodes and one liaison in this process (file-based discovery, property schema).
func bootCluster(t *testing.T, nData int, dir string, liaisonFlags []string, dataFlags ...string) *srv {
	gomega.RegisterFailHandler(func(message string, _ ...int) { panic("setup: " + message) })
	cfg := setup.PropertyClusterConfig(setup.NewDiscoveryFileWriter(dir))
	var stops []func()
	for i := 0; i < nData; i++ {
		ff := append([]string{"--measure-flush-timeout=200ms", "--stream-flush-timeout=200ms", "--trace-flush-timeout=200ms"}, dataFlags...)
		stops = append(stops, setup.DataNode(cfg, ff...))
	}
	addr, stopL := setup.LiaisonNode(cfg, liaisonFlags...)
	conn, err := grpc.NewClient(addr, grpc.WithTransportCredentials(insecure.NewCredentials()),
		grpc.WithDefaultCallOptions(grpc.MaxCallRecvMsgSize(256<<20), grpc.MaxCallSendMsgSize(256<<20)))
	if err != nil {
		t.Fatal(err)
	}
	sv := &srv{addr: addr, conn: conn}
	var stopAlt func()
	if len(liaisonFlags) == 0 { // the main liaison runs the default (vectorized) engine: add a row-engine coordinator
		addr2, stopL2 := setup.LiaisonNode(cfg, "--measure-vectorized-enabled=false", "--stream-vectorized-enabled=false")
		conn2, err := grpc.NewClient(addr2, grpc.WithTransportCredentials(insecure.NewCredentials()),
			grpc.WithDefaultCallOptions(grpc.MaxCallRecvMsgSize(256<<20), grpc.MaxCallSendMsgSize(256<<20)))
		if err != nil {
			t.Fatal(err)
		}
		sv.alt = &srv{addr: addr2, conn: conn2}
		stopAlt = func() {
			conn2.Close()
			stopL2()
		}
	}
	sv.stop = func() {
		conn.Close()
		if stopAlt != nil {
			stopAlt()
		}
		stopL()
		for _, f := range stops {
			f()
		}
	}
	return sv
}

func ctxT() (context.Context, context.CancelFunc) {
	return context.WithTimeout(context.Background(), 120*time.Second)
}

func (s *srv) group(name string, cat commonv1.Catalog, shards uint32, unit commonv1.IntervalRule_Unit, num uint32, ttlDays uint32) error {
	ctx, cancel := ctxT()
	defer cancel()
	_, err := databasev1.NewGroupRegistryServiceClient(s.conn).Create(ctx, &databasev1.GroupRegistryServiceCreateRequest{Group: &commonv1.Group{
		Metadata: &commonv1.Metadata{Name: name}, Catalog: cat,
		ResourceOpts: &commonv1.ResourceOpts{ShardNum: shards, Replicas: s.replicas,
			SegmentInterval: &commonv1.IntervalRule{Unit: unit, Num: num},
			Ttl:             &commonv1.IntervalRule{Unit: commonv1.IntervalRule_UNIT_DAY, Num: ttlDays}},
	}})
	return err
}

func (s *srv) measure(m *databasev1.Measure) error {
	ctx, cancel := ctxT()
	defer cancel()
	_, err := databasev1.NewMeasureRegistryServiceClient(s.conn).Create(ctx, &databasev1.MeasureRegistryServiceCreateRequest{Measure: m})
	return err
}

func (s *srv) stream(m *databasev1.Stream) error {
	ctx, cancel := ctxT()
	defer cancel()
	_, err := databasev1.NewStreamRegistryServiceClient(s.conn).Create(ctx, &databasev1.StreamRegistryServiceCreateRequest{Stream: m})
	return err
}

func (s *srv) indexRule(group, name string, tags []string, typ databasev1.IndexRule_Type) error {
	ctx, cancel := ctxT()
	defer cancel()
	_, err := databasev1.NewIndexRuleRegistryServiceClient(s.conn).Create(ctx, &databasev1.IndexRuleRegistryServiceCreateRequest{IndexRule: &databasev1.IndexRule{
		Metadata: &commonv1.Metadata{Name: name, Group: group}, Tags: tags, Type: typ,
	}})
	return err
}

func (s *srv) bind(group, name string, rules []string, cat commonv1.Catalog, subject string) error {
	ctx, cancel := ctxT()
	defer cancel()
	_, err := databasev1.NewIndexRuleBindingRegistryServiceClient(s.conn).Create(ctx, &databasev1.IndexRuleBindingRegistryServiceCreateRequest{IndexRuleBinding: &databasev1.IndexRuleBinding{
		Metadata: &commonv1.Metadata{Name: name, Group: group}, Rules: rules,
		Subject:  &databasev1.Subject{Catalog: cat, Name: subject},
		BeginAt:  timestamppb.New(time.Date(2000, 1, 1, 0, 0, 0, 0, time.UTC)),
		ExpireAt: timestamppb.New(time.Date(2200, 1, 1, 0, 0, 0, 0, time.UTC)),
	}})
	return err
}

// writeMeasure sends the points on one Write stream and returns, per point, whether it was acknowledged SUCCEED.
func (s *srv) writeMeasure(group, name string, pts []*measurev1.DataPointValue) ([]bool, error) {
	ctx, cancel := ctxT()
	defer cancel()
	ws, err := measurev1.NewMeasureServiceClient(s.conn).Write(ctx)
	if err != nil {
		return nil, err
	}
	ids := make(map[uint64]int, len(pts))
	acked := make([]bool, len(pts))
	done := make(chan error, 1)
	go func() {
		for {
			resp, rerr := ws.Recv()
			if rerr == io.EOF {
				done <- nil
				return
			}
			if rerr != nil {
				done <- rerr
				return
			}
			if i, ok := ids[resp.MessageId]; ok && resp.Status == modelv1.Status_STATUS_SUCCEED.String() {
				acked[i] = true
			}
		}
	}()
	for i, p := range pts {
		id := s.mid.Add(1)
		ids[id] = i
		if err := ws.Send(&measurev1.WriteRequest{Metadata: &commonv1.Metadata{Name: name, Group: group}, MessageId: id, DataPoint: p}); err != nil {
			break
		}
	}
	ws.CloseSend()
	if err := <-done; err != nil {
		return acked, err
	}
	return acked, nil
}

func (s *srv) writeStream(group, name string, els []*streamv1.ElementValue) ([]bool, error) {
	ctx, cancel := ctxT()
	defer cancel()
	ws, err := streamv1.NewStreamServiceClient(s.conn).Write(ctx)
	if err != nil {
		return nil, err
	}
	ids := make(map[uint64]int, len(els))
	acked := make([]bool, len(els))
	done := make(chan error, 1)
	go func() {
		for {
			resp, rerr := ws.Recv()
			if rerr == io.EOF {
				done <- nil
				return
			}
			if rerr != nil {
				done <- rerr
				return
			}
			if i, ok := ids[resp.MessageId]; ok && resp.Status == modelv1.Status_STATUS_SUCCEED.String() {
				acked[i] = true
			}
		}
	}()
	for i, e := range els {
		id := s.mid.Add(1)
		ids[id] = i
		if err := ws.Send(&streamv1.WriteRequest{Metadata: &commonv1.Metadata{Name: name, Group: group}, MessageId: id, Element: e}); err != nil {
			break
		}
	}
	ws.CloseSend()
	if err := <-done; err != nil {
		return acked, err
	}
	return acked, nil
}

func (s *srv) queryMeasure(req *measurev1.QueryRequest) (*measurev1.QueryResponse, error) {
	ctx, cancel := ctxT()
	defer cancel()
	return measurev1.NewMeasureServiceClient(s.conn).Query(ctx, req)
}

func (s *srv) queryStream(req *streamv1.QueryRequest) (*streamv1.QueryResponse, error) {
	ctx, cancel := ctxT()
	defer cancel()
	return streamv1.NewStreamServiceClient(s.conn).Query(ctx, req)
}

// waitWritable writes a sentinel until the schema has propagated to the write path (logical probe).
func (s *srv) waitWritableMeasure(group, name string, sentinel func() *measurev1.DataPointValue) error {
	var last error
	for i := 0; i < 600; i++ {
		acked, err := s.writeMeasure(group, name, []*measurev1.DataPointValue{sentinel()})
		if err == nil && len(acked) == 1 && acked[0] {
			return nil
		}
		last = err
		time.Sleep(50 * time.Millisecond)
	}
	return fmt.Errorf("measure %s/%s never became writable: %v", group, name, last)
}

func (s *srv) waitWritableStream(group, name string, sentinel func() *streamv1.ElementValue) error {
	var last error
	for i := 0; i < 600; i++ {
		acked, err := s.writeStream(group, name, []*streamv1.ElementValue{sentinel()})
		if err == nil && len(acked) == 1 && acked[0] {
			return nil
		}
		last = err
		time.Sleep(50 * time.Millisecond)
	}
	return fmt.Errorf("stream %s/%s never became writable: %v", group, name, last)
}

// ---- tag/field value helpers ------------------------------------------------------------------------------

func tStr(v string) *modelv1.TagValue {
	return &modelv1.TagValue{Value: &modelv1.TagValue_Str{Str: &modelv1.Str{Value: v}}}
}
func tInt(v int64) *modelv1.TagValue {
	return &modelv1.TagValue{Value: &modelv1.TagValue_Int{Int: &modelv1.Int{Value: v}}}
}
func tBin(v []byte) *modelv1.TagValue {
	return &modelv1.TagValue{Value: &modelv1.TagValue_BinaryData{BinaryData: v}}
}
func tStrArr(v []string) *modelv1.TagValue {
	return &modelv1.TagValue{Value: &modelv1.TagValue_StrArray{StrArray: &modelv1.StrArray{Value: v}}}
}
func tIntArr(v []int64) *modelv1.TagValue {
	return &modelv1.TagValue{Value: &modelv1.TagValue_IntArray{IntArray: &modelv1.IntArray{Value: v}}}
}
func tNull() *modelv1.TagValue { return &modelv1.TagValue{Value: &modelv1.TagValue_Null{}} }

func fInt(v int64) *modelv1.FieldValue {
	return &modelv1.FieldValue{Value: &modelv1.FieldValue_Int{Int: &modelv1.Int{Value: v}}}
}
func fFloat(v float64) *modelv1.FieldValue {
	return &modelv1.FieldValue{Value: &modelv1.FieldValue_Float{Float: &modelv1.Float{Value: v}}}
}
func fStr(v string) *modelv1.FieldValue {
	return &modelv1.FieldValue{Value: &modelv1.FieldValue_Str{Str: &modelv1.Str{Value: v}}}
}
func fBin(v []byte) *modelv1.FieldValue {
	return &modelv1.FieldValue{Value: &modelv1.FieldValue_BinaryData{BinaryData: v}}
}
func fNull() *modelv1.FieldValue { return &modelv1.FieldValue{Value: &modelv1.FieldValue_Null{}} }

// canonTag renders a tag value canonically for exact comparison (floats by bits, null vs empty kept apart).
func canonTag(v *modelv1.TagValue) string {
	if v == nil {
		return "<absent>"
	}
	switch x := v.Value.(type) {
	case *modelv1.TagValue_Null:
		return "null"
	case *modelv1.TagValue_Str:
		return fmt.Sprintf("str:%q", x.Str.GetValue())
	case *modelv1.TagValue_Int:
		return fmt.Sprintf("int:%d", x.Int.GetValue())
	case *modelv1.TagValue_BinaryData:
		return fmt.Sprintf("bin:%x", x.BinaryData)
	case *modelv1.TagValue_StrArray:
		return fmt.Sprintf("strarr:%q", x.StrArray.GetValue())
	case *modelv1.TagValue_IntArray:
		return fmt.Sprintf("intarr:%v", x.IntArray.GetValue())
	case *modelv1.TagValue_Timestamp:
		return fmt.Sprintf("ts:%d", x.Timestamp.AsTime().UnixNano())
	case nil:
		return "<unset>"
	}
	return fmt.Sprintf("?%T", v.Value)
}

func canonField(v *modelv1.FieldValue) string {
	if v == nil {
		return "<absent>"
	}
	switch x := v.Value.(type) {
	case *modelv1.FieldValue_Null:
		return "null"
	case *modelv1.FieldValue_Str:
		return fmt.Sprintf("str:%q", x.Str.GetValue())
	case *modelv1.FieldValue_Int:
		return fmt.Sprintf("int:%d", x.Int.GetValue())
	case *modelv1.FieldValue_BinaryData:
		return fmt.Sprintf("bin:%x", x.BinaryData)
	case *modelv1.FieldValue_Float:
		return fmt.Sprintf("float:%016x", math.Float64bits(x.Float.GetValue()))
	case nil:
		return "<unset>"
	}
	return fmt.Sprintf("?%T", v.Value)
}

func allTime() *modelv1.TimeRange {
	return &modelv1.TimeRange{Begin: timestamppb.New(time.Date(2001, 1, 1, 0, 0, 0, 0, time.UTC)), End: timestamppb.New(time.Date(2199, 1, 1, 0, 0, 0, 0, time.UTC))}
}

func sortedKeys[V any](m map[string]V) []string {
	out := make([]string, 0, len(m))
	for k := range m {
		out = append(out, k)
	}
	sort.Strings(out)
	return out
}

func clipS(s string, n int) string {
	if len(s) > n {
		return s[:n] + "…"
	}
	return strings.ToValidUTF8(s, "?")
}
