// Package verifh is the harness side of /verif/vcheck: event sink, seeded PRNG, evidence counters.
// It is overlaid into the repository at build time (never committed there).
package verifh

import (
	"encoding/json"
	"fmt"
	"hash/fnv"
	"math/rand"
	"os"
	"sort"
	"strconv"
	"sync"
)

// Sink collects what a harness observed and streams violations to the runner.
type Sink struct {
	f        *os.File
	fps      map[uint64]struct{}
	counters map[string]int64
	samples  []any
	evals    int64
	mu       sync.Mutex
	maxSamp  int
	perKey   map[string]int
	nviol    int
}

var (
	global     *Sink
	globalOnce sync.Once
)

// S returns the process-wide sink (file named by VERIF_OUT, or stdout-less no-op file in cwd).
func S() *Sink {
	globalOnce.Do(func() {
		p := os.Getenv("VERIF_OUT")
		if p == "" {
			p = "verif-events.jsonl"
		}
		f, err := os.OpenFile(p, os.O_CREATE|os.O_WRONLY|os.O_APPEND, 0o644)
		if err != nil {
			panic(err)
		}
		global = &Sink{f: f, fps: map[uint64]struct{}{}, counters: map[string]int64{}, maxSamp: 6}
	})
	return global
}

// Seed is VERIF_SEED (default 1).
func Seed() int64 {
	n, err := strconv.ParseInt(os.Getenv("VERIF_SEED"), 10, 64)
	if err != nil {
		return 1
	}
	return n
}

// Thorough reports whether VERIF_TIER=thorough.
func Thorough() bool { return os.Getenv("VERIF_TIER") == "thorough" }

// Pick returns q in the quick tier and t in the thorough tier.
func Pick(q, t int) int {
	if Thorough() {
		return t
	}
	return q
}

// Scratch is the per-unit scratch directory.
func Scratch() string {
	if d := os.Getenv("VERIF_SCRATCH"); d != "" {
		return d
	}
	d, _ := os.MkdirTemp("", "verifh")
	return d
}

// Rand returns a PRNG determined by (VERIF_SEED, stream name, case index) only.
func Rand(stream string, idx int) *rand.Rand {
	h := fnv.New64a()
	fmt.Fprintf(h, "%d/%s/%d", Seed(), stream, idx)
	return rand.New(rand.NewSource(int64(h.Sum64())))
}

func (s *Sink) emit(v map[string]any) {
	b, err := json.Marshal(v)
	if err != nil {
		b, _ = json.Marshal(map[string]any{"t": v["t"], "key": fmt.Sprint(v["key"]), "detail": fmt.Sprintf("%+v", v["detail"])})
	}
	s.f.Write(append(b, '\n'))
}

// Case records one executed case. fp identifies it for distinct counting; only non-trivial cases are fingerprinted.
func (s *Sink) Case(fp string, nontrivial bool) {
	s.mu.Lock()
	defer s.mu.Unlock()
	s.evals++
	if nontrivial {
		h := fnv.New64a()
		h.Write([]byte(fp))
		s.fps[h.Sum64()] = struct{}{}
	}
}

// Sample keeps a few cases written out in full for the evidence file.
func (s *Sink) Sample(v any) {
	s.mu.Lock()
	defer s.mu.Unlock()
	if len(s.samples) < s.maxSamp {
		s.samples = append(s.samples, v)
	}
}

// Count adds to a named counter reported in the evidence.
func (s *Sink) Count(name string, n int64) {
	s.mu.Lock()
	defer s.mu.Unlock()
	s.counters[name] += n
}

// Violation reports a refuting observation at once (flushed before returning). key identifies the failing
// input/call site/history canonically: known findings are matched on it.
func (s *Sink) Violation(key string, detail any) {
	s.mu.Lock()
	defer s.mu.Unlock()
	s.nviol++
	if s.perKey == nil {
		s.perKey = map[string]int{}
	}
	s.perKey[key]++
	if s.perKey[key] > 5 || len(s.perKey) > 400 {
		s.counters["violations_not_listed"]++ // same key reported already: counted, not repeated
		return
	}
	s.emit(map[string]any{"t": "violation", "key": key, "detail": detail})
	s.f.Sync()
}

// Violations is the number reported so far.
func (s *Sink) Violations() int {
	s.mu.Lock()
	defer s.mu.Unlock()
	return s.nviol
}

// Inconclusive marks the run as undecided (hook never reached, checker timed out, ...).
func (s *Sink) Inconclusive(why string) {
	s.mu.Lock()
	defer s.mu.Unlock()
	s.emit(map[string]any{"t": "inconclusive", "why": why})
}

// Note adds free text to the evidence.
func (s *Sink) Note(msg string) {
	s.mu.Lock()
	defer s.mu.Unlock()
	s.emit(map[string]any{"t": "note", "msg": msg})
}

// Done writes the summary; a unit that does not reach Done is treated as crashed by the runner.
func (s *Sink) Done() {
	s.mu.Lock()
	defer s.mu.Unlock()
	ev := map[string]any{"t": "summary", "evaluations": s.evals, "counters": s.counters, "samples": s.samples}
	if len(s.fps) <= 20000 {
		fps := make([]uint64, 0, len(s.fps))
		for k := range s.fps {
			fps = append(fps, k)
		}
		sort.Slice(fps, func(i, j int) bool { return fps[i] < fps[j] })
		strs := make([]string, len(fps))
		for i, v := range fps {
			strs[i] = strconv.FormatUint(v, 36)
		}
		ev["fps"] = strs
	} else {
		ev["distinct_nontrivial"] = len(s.fps)
	}
	s.emit(ev)
	s.emit(map[string]any{"t": "done"})
	s.f.Sync()
	s.evals, s.fps, s.counters, s.samples = 0, map[uint64]struct{}{}, map[string]int64{}, nil
}
