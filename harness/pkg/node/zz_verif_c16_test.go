package node_test

// C16 — placement is deterministic and replica-disjoint.
// Independent coordinators (selector instances) are fed every ordering, with duplicates and detours, of the
// events leading to one final topology; the oracle compares their complete Pick tables with each other and
// with a 6-line reference. Shard location is checked for purity, range and stability (golden values).

import (
	"context"
	"fmt"
	"math/rand"
	"sort"
	"strings"
	"testing"

	commonv1 "github.com/apache/skywalking-banyandb/api/proto/banyandb/common/v1"
	databasev1 "github.com/apache/skywalking-banyandb/api/proto/banyandb/database/v1"
	modelv1 "github.com/apache/skywalking-banyandb/api/proto/banyandb/model/v1"
	"github.com/apache/skywalking-banyandb/banyand/metadata"
	"github.com/apache/skywalking-banyandb/banyand/metadata/schema"
	"github.com/apache/skywalking-banyandb/pkg/node"
	"github.com/apache/skywalking-banyandb/pkg/partition"
	"github.com/apache/skywalking-banyandb/pkg/verifh"
)

type grp struct {
	name     string
	shards   uint32
	replicas uint32
}

type event struct {
	kind string // G+ (add/update group), G- , N+ , N-
	g    grp
	n    string
}

func (e event) String() string {
	switch e.kind {
	case "G+":
		return fmt.Sprintf("G+%s/%d/%d", e.g.name, e.g.shards, e.g.replicas)
	case "G-":
		return "G-" + e.g.name
	default:
		return e.kind + e.n
	}
}

func groupMeta(g grp) schema.Metadata {
	return schema.Metadata{TypeMeta: schema.TypeMeta{Kind: schema.KindGroup, Name: g.name}, Spec: &commonv1.Group{
		Metadata: &commonv1.Metadata{Name: g.name}, Catalog: commonv1.Catalog_CATALOG_MEASURE,
		ResourceOpts: &commonv1.ResourceOpts{ShardNum: g.shards, Replicas: g.replicas},
	}}
}

type handler interface {
	OnAddOrUpdate(schema.Metadata)
	OnDelete(schema.Metadata)
}

func apply(sel node.Selector, evs []event) {
	h := sel.(handler)
	for _, e := range evs {
		switch e.kind {
		case "G+":
			h.OnAddOrUpdate(groupMeta(e.g))
		case "G-":
			h.OnDelete(groupMeta(e.g))
		case "N+":
			sel.AddNode(&databasev1.Node{Metadata: &commonv1.Metadata{Name: e.n}})
		case "N-":
			sel.RemoveNode(&databasev1.Node{Metadata: &commonv1.Metadata{Name: e.n}})
		}
	}
}

// table renders every Pick of the final topology.
func table(sel node.Selector, groups []grp) (string, map[string][]string) {
	var sb strings.Builder
	per := map[string][]string{}
	for _, g := range groups {
		for sh := uint32(0); sh < g.shards; sh++ {
			for rep := uint32(0); rep <= g.replicas; rep++ {
				n, err := sel.Pick(g.name, "", sh, rep)
				if err != nil {
					n = "ERR:" + err.Error()
				}
				fmt.Fprintf(&sb, "%s/%d/%d=%s;", g.name, sh, rep, n)
				k := fmt.Sprintf("%s/%d", g.name, sh)
				per[k] = append(per[k], n)
			}
		}
	}
	return sb.String(), per
}

// reference: sorted nodes, shards numbered in (group, shard) order, copy r of entry i lives on nodes[(i+r) mod n].
func reference(groups []grp, nodes []string) string {
	gs := append([]grp(nil), groups...)
	sort.Slice(gs, func(i, j int) bool { return gs[i].name < gs[j].name })
	ns := append([]string(nil), nodes...)
	sort.Strings(ns)
	idx := map[string]int{}
	i := 0
	for _, g := range gs {
		for sh := uint32(0); sh < g.shards; sh++ {
			idx[fmt.Sprintf("%s/%d", g.name, sh)] = i
			i++
		}
	}
	var sb strings.Builder
	for _, g := range groups {
		for sh := uint32(0); sh < g.shards; sh++ {
			for rep := uint32(0); rep <= g.replicas; rep++ {
				fmt.Fprintf(&sb, "%s/%d/%d=%s;", g.name, sh, rep, ns[(idx[fmt.Sprintf("%s/%d", g.name, sh)]+int(rep))%len(ns)])
			}
		}
	}
	return sb.String()
}

func permutations(n int, f func([]int) bool) {
	p := make([]int, n)
	for i := range p {
		p[i] = i
	}
	var rec func(k int) bool
	rec = func(k int) bool {
		if k == n {
			return f(p)
		}
		for i := k; i < n; i++ {
			p[k], p[i] = p[i], p[k]
			if !rec(k + 1) {
				return false
			}
			p[k], p[i] = p[i], p[k]
		}
		return true
	}
	rec(0)
}

type fakeGroups struct {
	schema.Group
	list []*commonv1.Group
}

func (f *fakeGroups) ListGroup(context.Context) ([]*commonv1.Group, error) { return f.list, nil }

type fakeRepo struct {
	metadata.Repo
	g *fakeGroups
}

func (f *fakeRepo) GroupRegistry() schema.Group { return f.g }

func seqString(evs []event) string {
	ss := make([]string, len(evs))
	for i, e := range evs {
		ss[i] = e.String()
	}
	return strings.Join(ss, " ")
}

func checkTopology(s *verifh.Sink, groups []grp, nodes []string, r *rand.Rand, permBudget int) {
	var base []event
	for _, g := range groups {
		base = append(base, event{kind: "G+", g: g})
	}
	for _, n := range nodes {
		base = append(base, event{kind: "N+", n: n})
	}
	// The yardstick is the coordinator that saw the events in canonical order; the statement fixes no particular
	// algorithm, so the reference table is only reported (counter) and never judged.
	canonical := node.NewRoundRobinSelector("verif", nil)
	apply(canonical, base)
	want, _ := table(canonical, groups)
	if want == reference(groups, nodes) {
		s.Count("topologies_matching_round_robin_reference", 1)
	}
	topo := fmt.Sprintf("groups=%v nodes=%v", groups, nodes)
	judge := func(evs []event, viaInit bool, variant string) {
		var sel node.Selector
		if viaInit {
			fg := &fakeGroups{}
			// initial load learns all groups at once (in registry order), nodes arrive as events
			var rest []event
			for _, e := range evs {
				if e.kind == "G+" {
					fg.list = append(fg.list, groupMeta(e.g).Spec.(*commonv1.Group))
				} else if e.kind != "G-" {
					rest = append(rest, e)
				}
			}
			sel = node.NewRoundRobinSelector("verif", &fakeRepo{g: fg})
			sel.OnInit([]schema.Kind{schema.KindGroup})
			apply(sel, rest)
		} else {
			sel = node.NewRoundRobinSelector("verif", nil)
			apply(sel, evs)
		}
		got, per := table(sel, groups)
		s.Case(topo+"|"+seqString(evs)+fmt.Sprint(viaInit), variant != "identity")
		s.Count("sequences."+variant, 1)
		if got != want {
			s.Violation("placement:diverges:"+variant, map[string]any{"topology": topo, "events": seqString(evs), "via_init": viaInit, "picks": got, "canonical_coordinator": want})
			return
		}
		for k, copies := range per {
			for _, c := range copies {
				if strings.HasPrefix(c, "ERR:") {
					s.Violation("placement:shard-unassigned:"+variant, map[string]any{"topology": topo, "events": seqString(evs), "shard": k, "copies": copies})
					return
				}
			}
			if len(copies) <= len(nodes) {
				seen := map[string]bool{}
				for _, c := range copies {
					if seen[c] {
						s.Violation("placement:replicas-not-disjoint:"+variant, map[string]any{"topology": topo, "events": seqString(evs), "shard": k, "copies": copies})
						return
					}
					seen[c] = true
				}
			}
		}
	}
	// all (or a seeded sample of) permutations of the base events
	count := 0
	total := 1
	for i := 2; i <= len(base); i++ {
		total *= i
	}
	stride := 1
	if total > permBudget {
		stride = total / permBudget
	}
	permutations(len(base), func(p []int) bool {
		count++
		if (count-1)%stride != 0 {
			return true
		}
		evs := make([]event, len(p))
		ident := true
		for i, j := range p {
			evs[i] = base[j]
			if i != j {
				ident = false
			}
		}
		v := "permutation"
		if ident {
			v = "identity"
		}
		judge(evs, false, v)
		if count%7 == 1 {
			judge(evs, true, "initial-load")
		}
		return true
	})
	// every single-event duplication at every later position
	for i := range base {
		for pos := i + 1; pos <= len(base); pos++ {
			evs := append(append(append([]event(nil), base[:pos]...), base[i]), base[pos:]...)
			judge(evs, false, "duplicate-event")
		}
	}
	// detours: extra node / group added then removed (the extra sorts first, in the middle or last; it is removed
	// right away, later, or as the very last event); node removed and re-added; group updated from another shape
	extras := []string{"a-first", "n1a-middle", "zz-last"}
	for k := 0; k < 24; k++ {
		evs := append([]event(nil), base...)
		r.Shuffle(len(evs), func(i, j int) { evs[i], evs[j] = evs[j], evs[i] })
		ins := func(pos int, e ...event) {
			evs = append(evs[:pos:pos], append(e, evs[pos:]...)...)
		}
		variant := ""
		switch k % 6 {
		case 0, 1:
			x := extras[r.Intn(len(extras))]
			p := r.Intn(len(evs) + 1)
			ins(p, event{kind: "N+", n: x})
			if k%6 == 0 {
				ins(p+1+r.Intn(len(evs)-p), event{kind: "N-", n: x})
			} else {
				evs = append(evs, event{kind: "N-", n: x}) // nothing after the removal can repair the node list
			}
			variant = "detour-node"
		case 2:
			p := r.Intn(len(evs) + 1)
			ins(p, event{kind: "G+", g: grp{name: []string{"a-extra", "g-bb", "zz-extra"}[r.Intn(3)], shards: 3, replicas: 1}})
			evs = append(evs, event{kind: "G-", g: grp{name: evs[p].g.name}})
			variant = "detour-group"
		case 3:
			n := nodes[r.Intn(len(nodes))]
			evs = append(evs, event{kind: "N-", n: n}, event{kind: "N+", n: n})
			variant = "node-rejoin"
		case 4:
			g := groups[r.Intn(len(groups))]
			old := grp{name: g.name, shards: g.shards + 2, replicas: 0}
			ins(0, event{kind: "G+", g: old})
			variant = "group-update"
		case 5: // two extras leave in the opposite order of their arrival
			ins(r.Intn(len(evs)+1), event{kind: "N+", n: extras[0]})
			ins(r.Intn(len(evs)+1), event{kind: "N+", n: extras[1]})
			evs = append(evs, event{kind: "N-", n: extras[0]}, event{kind: "N-", n: extras[1]})
			variant = "detour-node"
		}
		judge(evs, false, variant)
	}
}

func TestVerifC16(t *testing.T) {
	s := verifh.S()
	r := verifh.Rand("c16", 0)
	names := []string{"g-b", "g-a", "g-c"}
	nodeNames := []string{"n3", "n1", "n2", "n0"}
	budget := verifh.Pick(200, 5040)
	topologies := 0
	for ng := 1; ng <= 3; ng++ {
		for nn := 1; nn <= 4; nn++ {
			for sh := uint32(1); sh <= 3; sh++ {
				for rep := uint32(0); rep <= 2; rep++ {
					var groups []grp
					for i := 0; i < ng; i++ {
						groups = append(groups, grp{name: names[i], shards: 1 + (sh+uint32(i))%3, replicas: (rep + uint32(i)) % 3})
					}
					checkTopology(s, groups, nodeNames[:nn], r, budget)
					topologies++
				}
			}
		}
	}
	// larger lookup tables (sorting algorithms switch strategy above a dozen entries)
	for i, shape := range [][]uint32{{8, 8, 4}, {16, 1, 5}, {13}, {7, 6}, {5, 5, 5}, {20, 3}} {
		var groups []grp
		for j, sh := range shape {
			groups = append(groups, grp{name: names[j%3] + fmt.Sprint(j/3), shards: sh, replicas: uint32((i + j) % 3)})
		}
		for _, nn := range []int{3, 4} {
			checkTopology(s, groups, nodeNames[:nn], r, budget)
			topologies++
		}
	}
	s.Count("topologies", int64(topologies))
	s.Sample(map[string]any{"topology": "groups=[{g-b 2 1} {g-a 3 2}] nodes=[n3 n1]", "events": "N+n1 G+g-a/3/2 N+n3 G+g-b/2/1 N+n1(dup)", "oracle": "Pick table == reference && copies distinct"})
	checkLocate(s)
	s.Done()
}

// ---- shard location -------------------------------------------------------------------------------------

func tagStr(v string) *modelv1.TagValue {
	return &modelv1.TagValue{Value: &modelv1.TagValue_Str{Str: &modelv1.Str{Value: v}}}
}

func tagInt(v int64) *modelv1.TagValue {
	return &modelv1.TagValue{Value: &modelv1.TagValue_Int{Int: &modelv1.Int{Value: v}}}
}

func checkLocate(s *verifh.Sink) {
	families := []*databasev1.TagFamilySpec{
		{Name: "default", Tags: []*databasev1.TagSpec{{Name: "svc", Type: databasev1.TagType_TAG_TYPE_STRING}, {Name: "inst", Type: databasev1.TagType_TAG_TYPE_STRING}, {Name: "n", Type: databasev1.TagType_TAG_TYPE_INT}}},
		{Name: "extra", Tags: []*databasev1.TagSpec{{Name: "zone", Type: databasev1.TagType_TAG_TYPE_STRING}}},
	}
	n := verifh.Pick(20000, 400000)
	hist := map[uint32][]int{}
	for i := 0; i < n; i++ {
		r := verifh.Rand("c16loc", i)
		entity := &databasev1.Entity{TagNames: [][]string{{"svc"}, {"svc", "n"}, {"zone", "inst"}, {"n"}}[r.Intn(4)]}
		svc := []string{"", "a", "|", "svc-1", "svc|x", "\\"}[r.Intn(6)] + fmt.Sprint(r.Intn(50))
		write := []*modelv1.TagFamilyForWrite{
			{Tags: []*modelv1.TagValue{tagStr(svc), tagStr(fmt.Sprint("i", r.Intn(9))), tagInt(int64(r.Intn(100)) - 50)}},
			{Tags: []*modelv1.TagValue{tagStr([]string{"z1", "z2", ""}[r.Intn(3)])}},
		}
		shardNum := uint32(1 + r.Intn(16))
		if r.Intn(20) == 0 {
			shardNum = []uint32{1, 2, 3, 255, 256, 1 << 20, 1<<32 - 1}[r.Intn(7)]
		}
		l1 := partition.NewEntityLocator(families, entity, 0)
		ev1, id1, err1 := l1.Locate("m1", write, shardNum)
		l2 := partition.NewEntityLocator(families, entity, int64(r.Intn(100))) // a different coordinator's locator instance
		ev2, id2, err2 := l2.Locate("m1", write, shardNum)
		_, id3, _ := l1.Locate("m1", write, shardNum) // repeated call, same locator
		s.Case(fmt.Sprintf("loc/%v/%s/%d", entity.TagNames, svc, shardNum), shardNum > 1)
		if err1 != nil || err2 != nil {
			s.Violation("locate:error", map[string]any{"err1": fmt.Sprint(err1), "err2": fmt.Sprint(err2)})
			continue
		}
		if uint32(id1) >= shardNum || id1 != id2 || id1 != id3 || len(ev1) != len(ev2) {
			s.Violation("locate:impure-or-out-of-range", map[string]any{"entity": entity.TagNames, "svc": svc, "shardNum": shardNum, "ids": []uint32{uint32(id1), uint32(id2), uint32(id3)}})
		}
		if shardNum <= 16 {
			if hist[shardNum] == nil {
				hist[shardNum] = make([]int, shardNum)
			}
			hist[shardNum][id1]++
		}
		// a sharding key overrides the entity for routing, deterministically
		skl := partition.NewShardingKeyLocator(families, &databasev1.ShardingKey{TagNames: []string{"zone"}})
		_, a, errA := partition.ApplyLocators("m1", write, l1, skl, shardNum)
		_, b, errB := partition.ApplyLocators("m1", write, l2, skl, shardNum)
		_, c, _ := skl.Locate("m1", write, shardNum)
		if errA != nil || errB != nil || a != b || a != c || uint32(a) >= shardNum {
			s.Violation("locate:sharding-key", map[string]any{"a": a, "b": b, "c": c, "shardNum": shardNum})
		}
		tid := fmt.Sprintf("trace-%d-%s", r.Intn(1000), svc)
		t1, t2 := partition.TraceShardID(tid, shardNum), partition.TraceShardID(tid, shardNum)
		if t1 != t2 || uint32(t1) >= shardNum {
			s.Violation("locate:trace", map[string]any{"trace": tid, "shardNum": shardNum, "ids": []uint32{uint32(t1), uint32(t2)}})
		}
	}
	// every shard of a small group is actually used by some series (assignment is onto for modest cardinalities)
	for sn, h := range hist {
		for sh, c := range h {
			if c == 0 && sn <= 8 {
				s.Violation("locate:shard-never-chosen", map[string]any{"shardNum": sn, "shard": sh})
			}
		}
	}
	// golden values: the location function must be the same in every process / coordinator
	golden := map[string]uint32{}
	for k, v := range goldenShards {
		golden[k] = v
	}
	for _, key := range []string{"svc-1", "a|b", "", "trace-42"} {
		for _, sn := range []uint32{2, 7, 16} {
			id, _ := partition.ShardID([]byte(key), sn)
			name := fmt.Sprintf("%q/%d", key, sn)
			if want, ok := golden[name]; ok {
				if uint32(id) != want || uint32(partition.TraceShardID(key, sn)) != want {
					s.Violation("locate:golden", map[string]any{"key": key, "shardNum": sn, "got": id, "want": want})
				}
			} else {
				s.Note(fmt.Sprintf("golden missing: %s=%d", name, id))
			}
		}
	}
}

var goldenShards = map[string]uint32{
	`"svc-1"/2`: 0, `"svc-1"/7`: 1, `"svc-1"/16`: 6,
	`"a|b"/2`: 1, `"a|b"/7`: 4, `"a|b"/16`: 1,
	`""/2`: 1, `""/7`: 6, `""/16`: 9,
	`"trace-42"/2`: 1, `"trace-42"/7`: 6, `"trace-42"/16`: 11,
}
