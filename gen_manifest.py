#!/usr/bin/env python3
"""Writes MANIFEST.json from checks.json + manifest_meta.json (kept valid at all times)."""
import json, os
V = os.path.dirname(os.path.abspath(__file__))
checks = json.load(open(os.path.join(V, "checks.json")))
meta = json.load(open(os.path.join(V, "manifest_meta.json")))
props = [json.loads(l)["id"] for l in open(os.path.join(V, "properties.jsonl"))]
out = {
    "version": 1,
    "setup_cmd": "./vcheck setup",
    "hooks": meta["hooks"],
    "engines": [{"name": "vcheck", "path": "vcheck", "serves_properties": sorted(checks), "kind_free_text": "runner: regenerates API code offline, builds harness test binaries from /repo's working tree via go -overlay (+race), runs them in child processes, aggregates event logs into evidence"}],
    "checks": [],
    "notes": meta.get("notes", ""),
    "not_applicable": [],
}
for cid in sorted(checks):
    c = checks[cid]
    m = meta["checks"][cid]
    out["checks"].append({
        "property_id": cid,
        "quick_cmd": "./vcheck run %s --tier quick" % cid,
        "thorough_cmd": "./vcheck run %s --tier thorough" % cid,
        "evidence_file": "evidence/%s.json" % cid,
        "replay_cmd_template": "./vcheck replay %s {path}" % cid,
        "engine": "vcheck",
        "level_claimed": {"category": c["level"], "text": m["text"], "design_ref": m.get("design_ref", "DESIGN.md §3 " + cid)},
        "level_note": m["note"],
        "technique": m["technique"],
    })
for p in props:
    if p not in checks:
        out["not_applicable"].append({"property_id": p, "reason": meta.get("not_applicable", {}).get(p, "check not built yet in this session (planned, see DESIGN.md §3)")})
json.dump(out, open(os.path.join(V, "MANIFEST.json"), "w"), indent=1)
print("MANIFEST.json: %d checks, %d not_applicable" % (len(out["checks"]), len(out["not_applicable"])))
