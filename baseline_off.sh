#!/bin/bash
# Runs the repository's pinned baseline with the verif build tag OFF and compares with BASELINE.json.
export GOFLAGS=-mod=mod GOPROXY=off
unset GOSUMDB
cd "${VERIF_REPO:-/repo}" || exit 2
out=$(mktemp)
go test -mod=mod -json -vet=off -count=1 -timeout 25m ./... > "$out" 2>/dev/null
python3 - "$out" <<'PY'
import json,sys
base=set(json.load(open('/root/.vp/BASELINE.json'))['stable_pass'])
passed=set()
for line in open(sys.argv[1], errors='replace'):
    try: ev=json.loads(line)
    except ValueError: continue
    if ev.get('Action')=='pass' and ev.get('Test'):
        passed.add(ev['Package']+'::'+ev['Test'])
missing=sorted(base-passed)
print("baseline: %d/%d pinned tests pass with the guard off" % (len(base)-len(missing), len(base)))
for m in missing[:40]: print("  NOT PASSING:", m)
sys.exit(1 if missing else 0)
PY
rc=$?
rm -f "$out"
exit $rc
